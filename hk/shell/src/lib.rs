#![allow(dead_code, unused_imports, clippy::all)]
extern crate alloc;
pub mod util;
pub mod shellutil;
#[cfg(kani)]
mod c02s;
#[cfg(kani)]
mod c04;
#[cfg(kani)]
mod c04p;
#[cfg(kani)]
mod c05;
#[cfg(kani)]
mod c09;
#[cfg(kani)]
mod c18;
#[cfg(kani)]
mod c19;
