//! Environment stand-ins for the shell harnesses (clock, sockets, channels).
use std::mem::MaybeUninit;
use std::net::{IpAddr, Ipv4Addr, SocketAddr};

use smallvec::SmallVec;
use tokio::net::UdpSocket;
use tokio::sync::mpsc::UnboundedSender;

/// Virtual clock: `srtla_core::utils::now_ms` is replaced by this (the real one reads the OS
/// clock).  The harness sets it to an arbitrary value before the call under test.
pub static mut CLOCK: u64 = 0;
pub fn stub_now_ms() -> u64 {
    unsafe { CLOCK }
}
pub fn set_clock(t: u64) {
    unsafe { CLOCK = t }
}

/// Datagrams handed to the local SRT client through the synchronous fast path.
pub static mut INSTANT_SENDS: u32 = 0;
pub static mut INSTANT_LAST_LEN: usize = 0;
pub static mut INSTANT_LAST_B0: u8 = 0;

pub fn stub_try_send_to(_s: &UdpSocket, buf: &[u8], _target: SocketAddr) -> std::io::Result<usize> {
    unsafe {
        INSTANT_SENDS += 1;
        INSTANT_LAST_LEN = buf.len();
        INSTANT_LAST_B0 = if buf.is_empty() { 0 } else { buf[0] };
    }
    Ok(buf.len())
}

/// A reference to a socket that is never used: all socket entry points reachable from the
/// harnesses are stubbed, so the object behind the reference is never read.
pub fn fake_socket(slot: &MaybeUninit<UdpSocket>) -> &UdpSocket {
    unsafe { &*slot.as_ptr() }
}
pub fn fake_sender<T>(slot: &MaybeUninit<UnboundedSender<T>>) -> &UnboundedSender<T> {
    unsafe { &*slot.as_ptr() }
}

pub fn client() -> SocketAddr {
    SocketAddr::new(IpAddr::V4(Ipv4Addr::LOCALHOST), 5000)
}

pub fn stub_unbounded_send<T>(_s: &UnboundedSender<T>, msg: T) -> Result<(), tokio::sync::mpsc::error::SendError<T>> {
    core::mem::forget(msg);
    Ok(())
}
