//! Environment stand-ins for the shell harnesses (clock, sockets, channels).
use std::mem::MaybeUninit;
use std::net::{IpAddr, Ipv4Addr, SocketAddr};

use smallvec::SmallVec;
use tokio::net::UdpSocket;
use tokio::sync::mpsc::UnboundedSender;

/// Virtual clock: `srtla_core::utils::now_ms` is replaced by this (the real one reads the OS
/// clock).  The harness sets it to an arbitrary value before the call under test.
pub static mut CLOCK: u64 = 0;
pub fn stub_now_ms() -> u64 {
    unsafe { CLOCK }
}
pub fn set_clock(t: u64) {
    unsafe { CLOCK = t }
    // the same instant through srtla-core's verif-hooks clock override, so that a NATIVE replay (where the
    // #[kani::stub] of now_ms is not in effect) reads the clock the model read (any_now() >= 1, so never 0 = off)
    srtla_core::utils::VH_CLOCK_OVERRIDE_MS.store(t, std::sync::atomic::Ordering::Relaxed);
}

/// Datagrams handed to the local SRT client through the synchronous fast path.
pub static mut INSTANT_SENDS: u32 = 0;
pub static mut INSTANT_LAST_LEN: usize = 0;
pub static mut INSTANT_LAST_B0: u8 = 0;

pub fn stub_try_send_to(_s: &UdpSocket, buf: &[u8], _target: SocketAddr) -> std::io::Result<usize> {
    unsafe {
        INSTANT_SENDS += 1;
        INSTANT_LAST_LEN = buf.len();
        INSTANT_LAST_B0 = if buf.is_empty() { 0 } else { buf[0] };
    }
    Ok(buf.len())
}

/// A reference to a socket that is never used: all socket entry points reachable from the
/// harnesses are stubbed, so the object behind the reference is never read.
pub fn fake_socket(slot: &MaybeUninit<UdpSocket>) -> &UdpSocket {
    unsafe { &*slot.as_ptr() }
}
pub fn fake_sender<T>(slot: &MaybeUninit<UnboundedSender<T>>) -> &UnboundedSender<T> {
    unsafe { &*slot.as_ptr() }
}

pub fn client() -> SocketAddr {
    SocketAddr::new(IpAddr::V4(Ipv4Addr::LOCALHOST), 5000)
}

pub fn stub_unbounded_send<T>(_s: &UnboundedSender<T>, msg: T) -> Result<(), tokio::sync::mpsc::error::SendError<T>> {
    core::mem::forget(msg);
    Ok(())
}

// ---------------------------------------------------------------------------------------------
// Polling an async fn exactly once.
//
// `kani::block_on` polls in a `loop`; CBMC cannot see that the first poll returns Ready (the coroutine's
// state discriminant is not constant-propagated), so it unwinds that loop to the harness bound and walks
// the whole function body again on every unwinding.  The shell functions under test contain no await that
// can suspend in the verification build (their only awaits are the socket sends that are stubbed or cut),
// so ONE poll from the initial state runs the body to completion; a Pending result is reported as a failed
// assertion rather than assumed away.
fn noop_raw_waker() -> core::task::RawWaker {
    fn clone(_: *const ()) -> core::task::RawWaker {
        noop_raw_waker()
    }
    fn noop(_: *const ()) {}
    static VTABLE: core::task::RawWakerVTable = core::task::RawWakerVTable::new(clone, noop, noop, noop);
    core::task::RawWaker::new(core::ptr::null(), &VTABLE)
}

pub fn poll_once<F: core::future::Future>(fut: F) -> F::Output {
    let waker = unsafe { core::task::Waker::from_raw(noop_raw_waker()) };
    let mut cx = core::task::Context::from_waker(&waker);
    let mut fut = core::pin::pin!(fut);
    match fut.as_mut().poll(&mut cx) {
        core::task::Poll::Ready(r) => r,
        core::task::Poll::Pending => {
            assert!(false, "HARNESS: the async fn suspended (an await that is not stubbed)");
            loop {}
        }
    }
}
