//! Shared helpers for the core harnesses: arbitrary-state builders, stubs, oracles.
use std::net::{IpAddr, Ipv4Addr};

use srtla_core::config_snapshot::ConfigSnapshot;
use srtla_core::connection::{CachedQuality, CongestionControl, LinkPhase, SrtlaConnection};
use srtla_core::kalman::KalmanFilter;
use srtla_core::mode::SchedulingMode;

/// Stub for `alloc::fmt::format` (log / warn message construction is not the
/// subject of any property; real `format!` costs minutes of symbolic execution).
pub fn no_format(_: core::fmt::Arguments<'_>) -> String {
    String::new()
}

/// Upper bound assumed for every clock value: 2^48 ms (~8900 years).  `now_ms()`
/// is an epoch-scale millisecond counter (~2^41 today); the code adds small
/// constants to it without overflow checks, so clocks near u64::MAX are outside
/// every claim.
pub const T_MAX: u64 = 1 << 48;

#[cfg(kani)]
pub fn any_time() -> u64 {
    let t: u64 = kani::any();
    kani::assume(t <= T_MAX);
    t
}

/// A decision clock: the real `now_ms()` is epoch-based and never 0 (0 is the "none" sentinel of
/// several stamp fields).
#[cfg(kani)]
pub fn any_now() -> u64 {
    let t: u64 = kani::any();
    kani::assume(t >= 1 && t <= T_MAX);
    t
}

#[cfg(kani)]
pub fn any_opt_time() -> Option<u64> {
    if kani::any() { Some(any_time()) } else { None }
}

#[cfg(kani)]
pub fn any_cc() -> CongestionControl {
    CongestionControl {
        nak_count: kani::any(),
        last_nak_time_ms: kani::any(),
        last_window_increase_ms: kani::any(),
        consecutive_acks_without_nak: kani::any(),
        fast_recovery_mode: kani::any(),
        fast_recovery_start_ms: kani::any(),
        nak_burst_count: kani::any(),
        nak_burst_start_time_ms: kani::any(),
    }
}

#[cfg(kani)]
pub fn any_window() -> i32 {
    let w: i32 = kani::any();
    kani::assume(w >= 1000 && w <= 60000);
    w
}

#[cfg(kani)]
pub fn any_phase() -> LinkPhase {
    let k: u8 = kani::any();
    match k & 3 {
        0 => LinkPhase::Registering,
        1 => LinkPhase::Warming { rtt_probes: kani::any(), entered_ms: any_time() },
        2 => LinkPhase::Live,
        _ => LinkPhase::Degraded,
    }
}

/// How much of a connection is made symbolic.
#[derive(Clone, Copy)]
pub struct Sym {
    /// smoothed RTT: 0 = "no RTT yet" (kalman value 0.0), 1 = symbolic integer-valued ms in
    /// 0..=5000 (the code only ever uses `srtt as u64` and sign tests), 2 = fully symbolic finite f64
    pub rtt: u8,
    /// symbolic f64 fields used by enhanced scoring (bitrate, rtt_min, cached quality multiplier)
    pub score_floats: bool,
    /// restrict the inputs of the two f64 leaves of the enhanced selector (BDP in-flight cap, CC soft
    /// cap) to the LEAF DOMAIN on which they are replaced by exact tables (see `leaf_tables`)
    pub leaf_domain: bool,
}

pub const SYM_INT: Sym = Sym { rtt: 1, score_floats: false, leaf_domain: false };
pub const SYM_FULL: Sym = Sym { rtt: 1, score_floats: true, leaf_domain: false };
pub const SYM_LEAF: Sym = Sym { rtt: 1, score_floats: true, leaf_domain: true };

/// The leaf domain and the tables of the two float-heavy leaf functions of the enhanced selector on
/// it.  Harnesses over N links replace `in_flight_cap_exceeded` and `cc_soft_cap_multiplier` by these
/// tables (`#[kani::stub]`) and constrain the links to the domain; `c11_leaf_tables_exact` decides
/// that the REAL functions equal the tables on every point of the domain.  So the N-link queries
/// contain no f64 division, and - because the tables are exact - a counterexample replays natively
/// on the real functions.
///   rtt_min = 1000 ms;  CC target in {0 (no signal), 8001 bit/s (BDP cap = 1 packet), 10^12 bit/s
///   (cap = 142_477_203 packets)};  measured bitrate in {0, target/2, target}  (soft cap 1.0 / 0.5 / 0.1)
pub mod leaf_tables {
    use srtla_core::connection::SrtlaConnection;
    pub const T_SMALL: u64 = 8_001;
    pub const T_BIG: u64 = 1_000_000_000_000;
    pub const RTT_MIN_MS: f64 = 1000.0;
    pub const CAP_BIG: i32 = 142_477_203;

    pub fn cap_exceeded(c: &SrtlaConnection) -> bool {
        if c.cc_target_bps == T_SMALL {
            c.in_flight_packets > 1
        } else if c.cc_target_bps == T_BIG {
            c.in_flight_packets > CAP_BIG
        } else {
            false // 0: no rate signal, no cap
        }
    }

    pub fn soft_cap(c: &SrtlaConnection) -> f64 {
        let t = c.cc_target_bps;
        let m = c.vh_bitrate().current_bitrate_bps;
        if t == 0 || m <= 0.0 {
            1.0
        } else if m == t as f64 {
            0.1
        } else {
            0.5 // m == t / 2 on the domain
        }
    }
}

/// The solver-chosen values an arbitrary link is built from.  Kept as a plain Copy struct so a
/// harness can build the *same* link twice (relational properties, C12) or inspect the values.
#[derive(Clone, Copy)]
pub struct ConnVals {
    pub connected: bool,
    pub window: i32,
    pub in_flight: i32,
    pub last_received: Option<u64>,
    pub last_sent: Option<u64>,
    pub last_keepalive_sent: Option<u64>,
    pub proof_ms: u64,
    pub stall_gated: bool,
    pub latched_since: u64,
    pub recovery_since: u64,
    pub gate_events: u64,
    pub probe_counter: u32,
    pub silence_pulled: bool,
    pub silence_pulls: u64,
    pub conn_timeout_ms: u64,
    pub phase: LinkPhase,
    pub weak: bool,
    pub cc_backing_off: bool,
    pub loss_degraded: bool,
    pub cc_target_bps: u64,
    pub last_reconnect_attempt_ms: u64,
    pub reconnect_failure_count: u32,
    pub established_ms: u64,
    pub grace_deadline_ms: u64,
    pub nak_count: i32,
    pub last_nak_time_ms: u64,
    pub last_window_increase_ms: u64,
    pub consecutive_acks_without_nak: i32,
    pub fast_recovery_mode: bool,
    pub fast_recovery_start_ms: u64,
    pub nak_burst_count: i32,
    pub nak_burst_start_time_ms: u64,
    pub rtt_x: f64,
    pub rtt_v: f64,
    pub rtt_init: bool,
    pub bitrate_bps: f64,
    pub rtt_min_ms: f64,
    pub quality_mult: f64,
    pub quality_at_ms: u64,
    pub queued: u8,
}

#[cfg(kani)]
pub fn any_vals(sym: Sym) -> ConnVals {
    let window = any_window();
    let in_flight: i32 = kani::any();
    kani::assume(in_flight >= 0);
    let gate_events: u64 = kani::any();
    kani::assume(gate_events < u64::MAX / 2);
    let probe_counter: u32 = kani::any();
    kani::assume(probe_counter < 100);
    let silence_pulls: u64 = kani::any();
    kani::assume(silence_pulls < u64::MAX / 2);
    let conn_timeout_ms: u64 = kani::any();
    kani::assume(conn_timeout_ms >= 1000 && conn_timeout_ms <= 60000);
    let nak_count: i32 = kani::any();
    kani::assume(nak_count >= 0);
    let nak_burst_count: i32 = kani::any();
    kani::assume(nak_burst_count >= 0);
    let (rtt_x, rtt_v, rtt_init) = match sym.rtt {
        0 => (0.0, 0.0, false),
        1 => {
            let ms: u16 = kani::any();
            kani::assume(ms <= 5000);
            (ms as f64, 0.0, kani::any())
        }
        _ => {
            let x: f64 = kani::any();
            kani::assume(x.is_finite());
            let v: f64 = kani::any();
            kani::assume(v.is_finite());
            (x, v, kani::any())
        }
    };
    let mut cc_target_bps: u64 = kani::any();
    let (bitrate_bps, rtt_min_ms, quality_mult, quality_at_ms) = if sym.score_floats {
        let q: f64 = kani::any();
        kani::assume(q >= 0.35 && q <= 1.1 * 1.03);
        if sym.leaf_domain {
            let tk: u8 = kani::any();
            cc_target_bps = match tk % 3 {
                0 => 0,
                1 => leaf_tables::T_SMALL,
                _ => leaf_tables::T_BIG,
            };
            let mk: u8 = kani::any();
            let bps = match mk % 3 {
                0 => 0.0,
                1 => cc_target_bps as f64 / 2.0,
                _ => cc_target_bps as f64,
            };
            (bps, leaf_tables::RTT_MIN_MS, q, any_time())
        } else {
            let bps: f64 = kani::any();
            kani::assume(bps >= 0.0 && bps <= 1.0e10);
            let rmin: f64 = kani::any();
            kani::assume(rmin.is_finite());
            (bps, rmin, q, any_time())
        }
    } else {
        (0.0, 200.0, 1.0, 0)
    };
    ConnVals {
        connected: kani::any(),
        window,
        in_flight,
        last_received: any_opt_time(),
        last_sent: any_opt_time(),
        last_keepalive_sent: any_opt_time(),
        proof_ms: any_time(),
        stall_gated: kani::any(),
        latched_since: any_time(),
        recovery_since: any_time(),
        gate_events,
        probe_counter,
        silence_pulled: kani::any(),
        silence_pulls,
        conn_timeout_ms,
        phase: any_phase(),
        weak: kani::any(),
        cc_backing_off: kani::any(),
        loss_degraded: kani::any(),
        cc_target_bps,
        last_reconnect_attempt_ms: any_time(),
        reconnect_failure_count: kani::any(),
        established_ms: any_time(),
        grace_deadline_ms: any_time(),
        nak_count,
        last_nak_time_ms: any_time(),
        last_window_increase_ms: any_time(),
        consecutive_acks_without_nak: kani::any(),
        fast_recovery_mode: kani::any(),
        fast_recovery_start_ms: any_time(),
        nak_burst_count,
        nak_burst_start_time_ms: any_time(),
        rtt_x,
        rtt_v,
        rtt_init,
        bitrate_bps,
        rtt_min_ms,
        quality_mult,
        quality_at_ms,
        queued: 0,
    }
}

/// Build the real `SrtlaConnection` from the values.  `packet_log` is left empty unless a
/// harness fills it (selection reads only the in-flight *count*); `queued` one-byte packets are
/// put into the real batch queue.
pub fn build_conn(id: u64, v: &ConnVals) -> SrtlaConnection {
    let mut c = SrtlaConnection::new_registering(id, String::new(), IpAddr::V4(Ipv4Addr::LOCALHOST), 0);
    c.connected = v.connected;
    c.window = v.window;
    c.in_flight_packets = v.in_flight;
    c.last_received = v.last_received;
    c.last_sent = v.last_sent;
    *c.vh_last_keepalive_sent_mut() = v.last_keepalive_sent;
    c.last_ack_or_rtt_sample_ms = v.proof_ms;
    *c.vh_stall_gated_mut() = v.stall_gated;
    *c.vh_stall_latched_since_ms_mut() = v.latched_since;
    *c.vh_stall_recovery_since_ms_mut() = v.recovery_since;
    *c.vh_stall_gate_events_mut() = v.gate_events;
    *c.vh_stall_probe_counter_mut() = v.probe_counter;
    *c.vh_silence_pulled_mut() = v.silence_pulled;
    *c.vh_silence_pulls_mut() = v.silence_pulls;
    *c.vh_conn_timeout_ms_mut() = v.conn_timeout_ms;
    *c.vh_phase_mut() = v.phase;
    *c.vh_congestion_mut() = CongestionControl {
        nak_count: v.nak_count,
        last_nak_time_ms: v.last_nak_time_ms,
        last_window_increase_ms: v.last_window_increase_ms,
        consecutive_acks_without_nak: v.consecutive_acks_without_nak,
        fast_recovery_mode: v.fast_recovery_mode,
        fast_recovery_start_ms: v.fast_recovery_start_ms,
        nak_burst_count: v.nak_burst_count,
        nak_burst_start_time_ms: v.nak_burst_start_time_ms,
    };
    c.weak = v.weak;
    c.cc_backing_off = v.cc_backing_off;
    c.loss_degraded = v.loss_degraded;
    c.cc_target_bps = v.cc_target_bps;
    c.reconnection.last_reconnect_attempt_ms = v.last_reconnect_attempt_ms;
    c.reconnection.reconnect_failure_count = v.reconnect_failure_count;
    c.reconnection.connection_established_ms = v.established_ms;
    c.reconnection.startup_grace_deadline_ms = v.grace_deadline_ms;
    c.rtt.kalman_rtt = KalmanFilter::vh_from_parts(v.rtt_x, v.rtt_v, [0.0; 4], v.rtt_init);
    c.vh_bitrate_mut().current_bitrate_bps = v.bitrate_bps;
    c.rtt.rtt_min_ms = v.rtt_min_ms;
    *c.vh_quality_cache_mut() = CachedQuality { multiplier: v.quality_mult, last_calculated_ms: v.quality_at_ms };
    let mut q = 0;
    while q < v.queued {
        c.batch_sender.queue_packet(&[0u8], None, 0);
        q += 1;
    }
    c
}

/// An arbitrary link (see `ConnVals`): everything a scheduler / stall guard / liveness predicate
/// reads is a solver variable, constrained only by the representation invariant documented in
/// DESIGN.md: window in [1000,60000], in-flight >= 0, counters >= 0, floats finite and in their
/// documented ranges, clocks <= 2^48.
#[cfg(kani)]
pub fn any_conn(id: u64, sym: Sym) -> SrtlaConnection {
    build_conn(id, &any_vals(sym))
}

#[cfg(kani)]
pub fn any_config(mode: SchedulingMode) -> ConfigSnapshot {
    let to: u64 = kani::any();
    kani::assume(to >= 1000 && to <= 60000);
    let stale: u64 = kani::any();
    kani::assume(stale <= T_MAX);
    ConfigSnapshot {
        mode,
        quality_enabled: kani::any(),
        stall_deselect: kani::any(),
        stall_min_in_flight: kani::any(),
        stall_ack_stale_ms: stale,
        conn_timeout_ms: to,
    }
}

/// The liveness predicate restated from the documentation (not by calling the code under test):
/// a connected link is timed out iff it has heard nothing for `timeout` ms; a never-established,
/// not-connected link is alive while inside its start-up grace; any other not-connected link is
/// timed out once it has heard nothing (or never anything) for `timeout` ms.
pub fn ref_timed_out(c: &SrtlaConnection, now: u64, timeout: u64) -> bool {
    if c.connected {
        match c.last_received {
            Some(lr) => now.saturating_sub(lr) >= timeout,
            None => false,
        }
    } else {
        if c.reconnection.connection_established_ms == 0 && now < c.reconnection.startup_grace_deadline_ms {
            return false;
        }
        match c.last_received {
            Some(lr) => now.saturating_sub(lr) >= timeout,
            None => true,
        }
    }
}

/// "usable" in the sense of C03/C04: registered since its last reset, connected, not timed out.
pub fn ref_usable(c: &SrtlaConnection, now: u64, timeout: u64) -> bool {
    c.connected && !matches!(c.vh_phase(), LinkPhase::Registering) && !ref_timed_out(c, now, timeout)
}
