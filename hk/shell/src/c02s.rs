//! Multi-link dispatch of receiver feedback: the real shell function `process_connection_events`
//! (cumulative ACKs to every link, SRTLA ACKs arrival-link-first then exactly one other holder, the
//! global +1 per acknowledged packet, NAKs through attribute_nak).
//! Written to decide the multi-link clauses of C02 and the window-evolution clause of C10.
//!
//! Registered under C02 (dispatch) and C10 (window evolution).  The async fn is polled exactly once through
//! the hook wrapper that returns its own future (DESIGN.md 2.5): 45-55 s per harness.  Before that
//! (`kani::block_on`, nested `async fn` wrapper) none of these finished in 2 h.
use std::mem::MaybeUninit;

use srtla_core::connection::{SrtlaConnection, SrtlaIncoming};
use srtla_send::sender::verif_hooks::{process_connection_events_fut as process_connection_events, SequenceTracker};

use crate::shellutil::*;
use crate::util::*;

pub fn no_rtt_update(_: &mut srtla_core::connection::RttTracker, _: u64, _: u64) {}

// Each dispatch harness decides one arm of process_connection_events; the handlers of the OTHER arms
// (whose lists are empty in that harness, but whose code CBMC's symbolic execution would still walk
// through at every loop unwinding) are cut off.  They are decided on their own in c02 / c05.
pub fn no_srt_ack(_: &mut SrtlaConnection, _: i32, _: u64) {}
pub fn no_attribute_nak(_: &mut [SrtlaConnection], _: &SequenceTracker, _: u32, _: u64) -> Option<usize> {
    None
}

fn seq_pool() -> [i32; 4] {
    // four distinct 31-bit sequence numbers (a, b, x1, x2)
    let s: [i32; 4] = core::array::from_fn(|_| {
        let v: i32 = kani::any();
        kani::assume(v >= 0);
        v
    });
    kani::assume(s[0] != s[1] && s[0] != s[2] && s[0] != s[3] && s[1] != s[2] && s[1] != s[3] && s[2] != s[3]);
    s
}

/// A link that holds an arbitrary subset of the pool.
fn link_holding(id: u64, pool: &[i32; 4], holds: &[bool; 4]) -> SrtlaConnection {
    let mut c = any_conn(id, SYM_INT);
    let mut n = 0;
    let mut k = 0;
    while k < 4 {
        if holds[k] {
            c.vh_packet_log_mut().insert(pool[k], any_time());
            n += 1;
        }
        k += 1;
    }
    c.in_flight_packets = n;
    *c.vh_highest_acked_seq_mut() = i32::MIN;
    c
}

/// One SRTLA ACK over 3 links, arrival link IDX: retired on the arrival link if it holds the packet,
/// otherwise on exactly one other holder (the lowest-numbered); every other link keeps its set.
fn srtla_ack_dispatch<const IDX: usize>() {
    const N: usize = 3;
    let now = any_now();
    set_clock(now);
    let pool = seq_pool();
    let holds: [[bool; 4]; N] = core::array::from_fn(|_| kani::any());
    let mut conns: [SrtlaConnection; N] = core::array::from_fn(|i| link_holding(i as u64 + 1, &pool, &holds[i]));
    let tracker = SequenceTracker::new();
    let sock = MaybeUninit::uninit();
    let mut inc = SrtlaIncoming::default();
    inc.read_any = true;
    inc.srtla_ack_numbers.push(pool[0] as u32);
    let inflight0: [i32; N] = core::array::from_fn(|i| conns[i].in_flight_packets);

    let r = poll_once(process_connection_events(IDX, &mut conns[..], None, fake_socket(&sock), &tracker, kani::any(), inc));
    assert!(r.is_ok(), "dispatch never fails");

    // oracle: who retires it
    let owner: Option<usize> = if holds[IDX][0] {
        Some(IDX)
    } else {
        let mut o = None;
        let mut i = 0;
        while i < N {
            if i != IDX && holds[i][0] && o.is_none() {
                o = Some(i);
            }
            i += 1;
        }
        o
    };
    let mut i = 0;
    while i < N {
        let still = conns[i].vh_packet_log().contains_key(&pool[0]);
        if Some(i) == owner {
            assert!(!still && conns[i].in_flight_packets == inflight0[i] - 1, "the SRTLA-ACKed packet is retired on the arrival link, else on one other holder");
            assert!(conns[i].last_ack_or_rtt_sample_ms == now, "the owner earns delivery proof");
        } else {
            assert!(still == holds[i][0] && conns[i].in_flight_packets == inflight0[i], "every other link keeps its outstanding set (a per-packet ACK retires ONE copy)");
        }
        let mut k = 1;
        while k < 4 {
            assert!(conns[i].vh_packet_log().contains_key(&pool[k]) == holds[i][k], "other sequence numbers are untouched");
            k += 1;
        }
        i += 1;
    }
    kani::cover!(owner.is_some() && owner != Some(IDX) && holds[(IDX + 1) % N][0] && holds[(IDX + 2) % N][0], "two other holders, arrival link does not hold it");
    kani::cover!(owner == Some(IDX) && holds[(IDX + 1) % N][0], "arrival link and another link both hold it (probe copy)");
    kani::cover!(owner.is_none(), "nobody holds it");
    core::mem::forget(conns);
    core::mem::forget(tracker);
}

#[kani::proof]
#[kani::unwind(6)]
#[kani::stub(srtla_core::utils::now_ms, stub_now_ms)]
#[kani::stub(alloc::fmt::format, no_format)]
#[kani::stub(srtla_core::connection::SrtlaConnection::handle_srt_ack, no_srt_ack)]
#[kani::stub(srtla_send::sender::packet_handler::attribute_nak, no_attribute_nak)]
#[kani::stub(srtla_core::connection::RttTracker::update_estimate, no_rtt_update)]
fn c02_srtla_ack_dispatch_idx0() {
    srtla_ack_dispatch::<0>();
}

#[kani::proof]
#[kani::unwind(6)]
#[kani::stub(srtla_core::utils::now_ms, stub_now_ms)]
#[kani::stub(alloc::fmt::format, no_format)]
#[kani::stub(srtla_core::connection::SrtlaConnection::handle_srt_ack, no_srt_ack)]
#[kani::stub(srtla_send::sender::packet_handler::attribute_nak, no_attribute_nak)]
#[kani::stub(srtla_core::connection::RttTracker::update_estimate, no_rtt_update)]
fn c02_srtla_ack_dispatch_idx1() {
    srtla_ack_dispatch::<1>();
}

/// A cumulative SRT ACK retires on EVERY link.
#[kani::proof]
#[kani::unwind(6)]
#[kani::stub(srtla_core::utils::now_ms, stub_now_ms)]
#[kani::stub(alloc::fmt::format, no_format)]
#[kani::stub(srtla_core::connection::RttTracker::update_estimate, no_rtt_update)]
fn c02_cumulative_ack_every_link() {
    const N: usize = 2;
    let now = any_now();
    set_clock(now);
    let pool = seq_pool();
    let holds: [[bool; 4]; N] = core::array::from_fn(|_| kani::any());
    let mut conns: [SrtlaConnection; N] = core::array::from_fn(|i| link_holding(i as u64 + 1, &pool, &holds[i]));
    let tracker = SequenceTracker::new();
    let sock = MaybeUninit::uninit();
    let ack: i32 = kani::any();
    kani::assume(ack >= 0);
    let mut inc = SrtlaIncoming::default();
    inc.read_any = true;
    inc.ack_numbers.push(ack as u32);
    let r = poll_once(process_connection_events(0, &mut conns[..], None, fake_socket(&sock), &tracker, kani::any(), inc));
    assert!(r.is_ok(), "dispatch never fails");
    let mut i = 0;
    while i < N {
        let mut cnt = 0;
        let mut k = 0;
        while k < 4 {
            let keep = holds[i][k] && pool[k] > ack;
            assert!(conns[i].vh_packet_log().contains_key(&pool[k]) == keep, "a cumulative ACK retires the packets at or below it on every link");
            if keep {
                cnt += 1;
            }
            k += 1;
        }
        assert!(conns[i].in_flight_packets == cnt, "in-flight follows on every link");
        i += 1;
    }
    kani::cover!(holds[1][0] && pool[0] <= ack, "the non-arrival link retired something");
    core::mem::forget(conns);
    core::mem::forget(tracker);
}

/// C10 window evolution: a datagram carrying TWO SRTLA ACK numbers in classic mode equals the
/// reference rules applied per acknowledged packet, in order: owner in-flight - 1, +29 iff
/// in-flight x 1000 > window, then +1 on every connected link that has ever heard anything; caps.
#[kani::proof]
#[kani::unwind(6)]
#[kani::stub(srtla_core::utils::now_ms, stub_now_ms)]
#[kani::stub(alloc::fmt::format, no_format)]
fn c10_window_evolution_two_acks() {
    const N: usize = 2;
    let now = any_now();
    set_clock(now);
    let pool = seq_pool();
    let holds: [[bool; 4]; N] = core::array::from_fn(|_| kani::any());
    // each acknowledged number is held by exactly one link (no probe copies here; dispatch is the harness above)
    kani::assume(holds[0][0] != holds[1][0] && holds[0][1] != holds[1][1]);
    let mut conns: [SrtlaConnection; N] = core::array::from_fn(|i| link_holding(i as u64 + 1, &pool, &holds[i]));
    let tracker = SequenceTracker::new();
    let sock = MaybeUninit::uninit();
    let mut inc = SrtlaIncoming::default();
    inc.read_any = true;
    inc.srtla_ack_numbers.push(pool[0] as u32);
    inc.srtla_ack_numbers.push(pool[1] as u32);
    // reference model
    let mut w: [i64; N] = core::array::from_fn(|i| conns[i].window as i64);
    let mut f: [i64; N] = core::array::from_fn(|i| conns[i].in_flight_packets as i64);
    let heard: [bool; N] = core::array::from_fn(|i| conns[i].connected && conns[i].last_received.is_some());
    let mut a = 0;
    while a < 2 {
        let owner = if holds[0][a] { 0 } else { 1 };
        f[owner] -= 1;
        if f[owner] * 1000 > w[owner] {
            w[owner] = core::cmp::min(w[owner] + 29, 60000);
        }
        let mut i = 0;
        while i < N {
            if heard[i] {
                w[i] = core::cmp::min(w[i] + 1, 60000);
            }
            i += 1;
        }
        a += 1;
    }
    let r = poll_once(process_connection_events(0, &mut conns[..], None, fake_socket(&sock), &tracker, true, inc));
    assert!(r.is_ok(), "dispatch never fails");
    let mut i = 0;
    while i < N {
        assert!(conns[i].window as i64 == w[i], "C10: window evolution matches the reference rules applied per acknowledged packet, in order");
        assert!(conns[i].in_flight_packets as i64 == f[i], "in-flight follows the reference");
        i += 1;
    }
    kani::cover!(holds[0][0] && holds[0][1] && conns[0].window as i64 >= 58, "both packets owned by link 0");
    kani::cover!(f[0] * 1000 > w[0] - 31 && holds[0][1], "growth rule fired near the boundary");
    core::mem::forget(conns);
    core::mem::forget(tracker);
}


/// C05 through the real dispatch loop: a datagram whose NAK list holds TWO numbers - the same number twice, or two
/// different ones - while the tracker remembers link 0 as the carrier of both (fresh entries written through the
/// real `insert`).  Per NAKed number only the remembered carrier is charged, only if it still holds the packet,
/// by exactly (+1 loss, -100 floored at 1000, -1 in flight); probe copies on link 1 are never charged; the repeated
/// NAK changes nothing.  (The carrier sits at slice position 0: position 1 trips the CBMC artefact described in
/// DESIGN.md section 7.)
///
/// NOT REGISTERED: every functional assertion and cover goal below comes back SUCCESS / SATISFIED (247 s), but
/// CBMC reports five failures inside Kani's own `__rust_dealloc` model (double free / invalid free) that have no
/// Rust source location and no counterpart in the one-NAK harnesses over the same code; they look like the
/// same artefact family as the position-1 instance of C05.  A check that fails on the unchanged tree for a
/// reason I cannot attribute to the code is not registered; NAK lists stay covered by the inductive one-NAK step.
#[kani::proof]
#[kani::unwind(6)]
#[kani::stub(srtla_core::utils::now_ms, stub_now_ms)]
#[kani::stub(alloc::fmt::format, no_format)]
#[kani::stub(srtla_core::connection::RttTracker::update_estimate, no_rtt_update)]
fn c05_nak_list_two_entries_unregistered() {
    const N: usize = 2;
    let now = any_now();
    set_clock(now);
    let size = srtla_send::sender::SEQ_TRACKING_SIZE as u32;
    let ha: u32 = kani::any();
    let hb: u32 = kani::any();
    kani::assume(ha < 0x7fff_0000 / size && hb < 0x7fff_0000 / size);
    let a: u32 = ha * size + 3; // two different ring slots, the rest of the 31-bit numbers symbolic
    let b: u32 = hb * size + 5;
    let duplicate: bool = kani::any();
    let holds_a: [bool; N] = [kani::any(), kani::any()];
    let holds_b: [bool; N] = [kani::any(), kani::any()];
    let mut conns: [SrtlaConnection; N] = core::array::from_fn(|i| {
        let mut c = any_conn(i as u64 + 1, SYM_INT);
        let mut n = 0;
        if holds_a[i] {
            c.vh_packet_log_mut().insert(a as i32, any_time());
            n += 1;
        }
        if holds_b[i] {
            c.vh_packet_log_mut().insert(b as i32, any_time());
            n += 1;
        }
        c.in_flight_packets = n;
        c
    });
    let mut tracker = SequenceTracker::new();
    tracker.insert(a, 1, now); // conn_id 1 = link 0 carried both unique copies
    tracker.insert(b, 1, now);
    let sock = MaybeUninit::uninit();
    let mut inc = SrtlaIncoming::default();
    inc.read_any = true;
    inc.nak_numbers.push(a);
    inc.nak_numbers.push(if duplicate { a } else { b });
    let w0: [i32; N] = core::array::from_fn(|i| conns[i].window);
    let f0: [i32; N] = core::array::from_fn(|i| conns[i].in_flight_packets);
    let n0: [i64; N] = core::array::from_fn(|i| conns[i].vh_congestion().nak_count as i64);
    kani::assume(n0[0] < 1_000_000 && n0[1] < 1_000_000); // loss counters far from i32::MAX

    let r = poll_once(process_connection_events(0, &mut conns[..], None, fake_socket(&sock), &tracker, kani::any(), inc));
    assert!(r.is_ok(), "dispatch never fails");

    let charges: i32 = holds_a[0] as i32 + (!duplicate && holds_b[0]) as i32;
    let mut w = w0[0];
    let mut k = 0;
    while k < charges {
        w = core::cmp::max(w - 100, 1000);
        k += 1;
    }
    assert!(conns[0].vh_congestion().nak_count as i64 == n0[0] + charges as i64, "one loss count per NAKed number the carrier still held; the repeated NAK adds nothing");
    assert!(conns[0].window == w, "one window decrement of 100 (floored at 1000) per charge");
    assert!(conns[0].in_flight_packets == f0[0] - charges, "one in-flight slot per charge");
    assert!(conns[1].vh_congestion().nak_count as i64 == n0[1] && conns[1].window == w0[1] && conns[1].in_flight_packets == f0[1],
        "while the carrier is remembered no other uplink is charged, whatever it holds");
    assert!(conns[1].vh_packet_log().contains_key(&(a as i32)) == holds_a[1] && conns[1].vh_packet_log().contains_key(&(b as i32)) == holds_b[1], "probe copies on the other link stay outstanding");
    kani::cover!(duplicate && holds_a[0] && holds_a[1], "duplicate NAK, carrier and a probe copy");
    kani::cover!(!duplicate && holds_a[0] && holds_b[0] && w0[0] < 1150, "two different numbers, both charged, floor reached");
    kani::cover!(!duplicate && !holds_a[0] && holds_a[1], "carrier already retired it, probe holder untouched");
    core::mem::forget(conns);
    core::mem::forget(tracker);
}
