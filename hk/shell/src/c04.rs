//! C04 layer (ii) – composition: the real shell function `handle_srt_packet` (selection, the
//! keyframe-window / SRT-retransmit priority override, forward_via_connection, duplicate probes)
//! on one symbolic client datagram over 2 symbolic links.  Also decides C10 (d) (classic mode:
//! every packet kind goes to the reference argmax) and the tracker-insert rule of C05.
//!
//! NOT REGISTERED.  With `poll_once`, the direct-future hook wrapper and the verif-model ConnIoMap
//! seam the harness gets much further than before, but `handle_srt_packet` itself awaits nested
//! async fns (`forward_via_connection`, `send_stall_probes`, `send_connection_batch`): their futures
//! live in state variants of the outer coroutine, CBMC loses every constant there (the empty I/O map,
//! the batch threshold), walks the whole flush path and runs past 11 GB / 25 min even for one link.
//! The defect this harness asserts against (F5) was confirmed natively instead; see DESIGN.md 5.
use std::collections::HashMap;
use std::mem::MaybeUninit;

use srtla_core::config_snapshot::ConfigSnapshot;
use srtla_core::connection::{LinkPhase, SrtlaConnection};
use srtla_core::mode::SchedulingMode;
use srtla_core::priority::CriticalWindow;
use srtla_send::sender::verif_hooks::{handle_srt_packet_fut as handle_srt_packet, ConnIoMap, SequenceTracker};

use crate::shellutil::*;
use crate::util::*;

const PKT: usize = 16;

pub fn rs_stub() -> std::hash::RandomState {
    // fixed keys: the map stays empty in these harnesses, so no key is ever hashed
    unsafe { core::mem::transmute::<(u64, u64), std::hash::RandomState>((0, 0)) }
}

pub async fn send_all_stub(_s: &srtla_send::net::BatchUdpSocket, _b: &[&[u8]]) -> std::io::Result<()> {
    Ok(())
}

pub fn cap_exceeded_abs(c: &SrtlaConnection) -> bool {
    leaf_tables::cap_exceeded(c)
}
pub fn soft_cap_abs(c: &SrtlaConnection) -> f64 {
    leaf_tables::soft_cap(c)
}

fn run<const N: usize>(mode: SchedulingMode, sym: Sym) {
    let now = any_now();
    set_clock(now);
    let mut cfg = any_config(mode);
    let vals: [ConnVals; N] = core::array::from_fn(|_| {
        let v = any_vals(sym);
        kani::assume(now.saturating_sub(v.quality_at_ms) < 50);
        v
    });
    let mut conns: [SrtlaConnection; N] = core::array::from_fn(|i| build_conn(i as u64 + 1, &vals[i]));
    let conn_io: ConnIoMap = ConnIoMap::new();
    let mut last_sel: Option<usize> = if kani::any() { Some(kani::any::<usize>() % 3) } else { None };
    let mut tracker = SequenceTracker::new();
    let mut client: Option<std::net::SocketAddr> = None;
    let cw = CriticalWindow::new();
    let critical: bool = kani::any();
    if critical {
        cw.extend_to(now + 1 + (kani::any::<u16>() as u64));
    }
    let mut buf: [u8; PKT] = kani::any();
    let n: usize = kani::any();
    kani::assume(n >= 1 && n <= PKT);
    let _ = &mut cfg;

    let is_data = n >= 4 && buf[0] & 0x80 == 0;
    let seq = ((buf[0] as u32) << 24) | ((buf[1] as u32) << 16) | ((buf[2] as u32) << 8) | buf[3] as u32;
    let usable0: [bool; N] = core::array::from_fn(|i| ref_usable(&conns[i], now, cfg.conn_timeout_ms));
    let alive_registered: [bool; N] = core::array::from_fn(|i| {
        !matches!(conns[i].vh_phase(), LinkPhase::Registering) && !ref_timed_out(&conns[i], now, cfg.conn_timeout_ms)
    });
    let scores: [i32; N] = core::array::from_fn(|i| conns[i].get_score());
    let q0: [i32; N] = core::array::from_fn(|i| conns[i].batch_sender.queued_count());

    poll_once(handle_srt_packet(Ok((n, client_addr())), &mut buf[..], &mut conns[..], &conn_io, &mut last_sel, &mut tracker, &mut client, true, &cfg, &cw));

    assert!(client == Some(client_addr()), "the client address is learned from the datagram");
    let grew: [i32; N] = core::array::from_fn(|i| conns[i].batch_sender.queued_count() - q0[i]);
    let gated: [bool; N] = core::array::from_fn(|i| *conns[i].vh_stall_gated());
    // the unique copy: the link remembered as previous selection
    let mut total = 0;
    let mut i = 0;
    while i < N {
        assert!(grew[i] == 0 || grew[i] == 1, "a link receives at most one copy of a datagram");
        total += grew[i];
        i += 1;
    }
    let mut any_usable = false;
    let mut u = 0;
    while u < N {
        any_usable |= usable0[u];
        u += 1;
    }
    if any_usable {
        assert!(total >= 1, "with a usable uplink the datagram is queued somewhere (C03 through the shell)");
    }
    if total >= 1 {
        let j = last_sel.unwrap();
        assert!(j < N && grew[j] == 1, "the selected uplink is the one that queued the unique copy");
        // C04: eligible = registered since last reset, not timed out, not currently stall-gated
        assert!(alive_registered[j], "C04: the unique copy goes to an uplink that completed registration and is not timed out");
        assert!(!gated[j], "C04: the unique copy never goes to a stall-gated uplink");
        // extra copies only as duplicate probes on gated, connected uplinks, only for data packets
        let mut k = 0;
        while k < N {
            if k != j && grew[k] == 1 {
                assert!(gated[k] && conns[k].connected && is_data, "an extra copy is only a duplicate probe on a stall-gated uplink");
                assert!(vals[k].probe_counter == 99, "and only every 100th routed data packet");
            }
            k += 1;
        }
        // C05 insert rule: the tracker remembers the carrier of the unique copy, not the probes
        if is_data {
            assert!(tracker.get(seq, now) == Some(conns[j].conn_id), "the tracker records the carrier of the unique copy");
        }
        // C10 (d): classic mode, guard off: every packet kind goes to the reference argmax
        if mode == SchedulingMode::Classic && !cfg.stall_deselect {
            let mut best: Option<usize> = None;
            let mut bs: i64 = -1;
            let mut k = 0;
            while k < N {
                if usable0[k] && (scores[k] as i64) > bs {
                    bs = scores[k] as i64;
                    best = Some(k);
                }
                k += 1;
            }
            assert!(Some(j) == best, "C10: in classic mode every packet kind (incl. retransmits / critical window) goes to the best-capacity uplink");
        }
    }
    let rexmit = n >= 8 && buf[0] & 0x80 == 0 && buf[4] & 0x04 != 0;
    kani::cover!(N < 2 || total == 2, "a duplicate probe was sent");
    kani::cover!(total == 1 && rexmit, "retransmit-flagged data routed");
    kani::cover!(total == 1 && critical && is_data, "data inside a critical window routed");
    kani::cover!(total == 1 && !is_data, "control packet routed");
    kani::cover!(total == 0, "nothing usable: dropped");
    core::mem::forget(conns);
    core::mem::forget(tracker);
    core::mem::forget(conn_io);
}

fn client_addr() -> std::net::SocketAddr {
    client()
}

#[kani::proof]
#[kani::unwind(6)]
#[kani::stub(srtla_core::utils::now_ms, stub_now_ms)]
#[kani::stub(std::hash::RandomState::new, rs_stub)]
#[kani::stub(alloc::fmt::format, no_format)]
fn c04_srt_packet_classic() {
    run::<2>(SchedulingMode::Classic, SYM_INT);
}

#[kani::proof]
#[kani::unwind(6)]
#[kani::stub(srtla_core::utils::now_ms, stub_now_ms)]
#[kani::stub(std::hash::RandomState::new, rs_stub)]
#[kani::stub(alloc::fmt::format, no_format)]
#[kani::stub(srtla_core::selection::enhanced::in_flight_cap_exceeded, cap_exceeded_abs)]
#[kani::stub(srtla_core::selection::enhanced::cc_soft_cap_multiplier, soft_cap_abs)]
fn c04_srt_packet_enhanced() {
    run::<2>(SchedulingMode::Enhanced, SYM_LEAF);
}

#[kani::proof]
#[kani::unwind(6)]
#[kani::stub(srtla_core::utils::now_ms, stub_now_ms)]
#[kani::stub(alloc::fmt::format, no_format)]
fn c04_srt_packet_classic_n1() {
    run::<1>(SchedulingMode::Classic, SYM_INT);
}

#[kani::proof]
#[kani::unwind(6)]
#[kani::stub(srtla_core::utils::now_ms, stub_now_ms)]
#[kani::stub(alloc::fmt::format, no_format)]
#[kani::stub(srtla_core::selection::enhanced::in_flight_cap_exceeded, cap_exceeded_abs)]
#[kani::stub(srtla_core::selection::enhanced::cc_soft_cap_multiplier, soft_cap_abs)]
fn c04_srt_packet_enhanced_n1() {
    run::<1>(SchedulingMode::Enhanced, SYM_LEAF);
}
