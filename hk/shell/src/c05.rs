//! C05 – a NAK is charged once, and only to a link that carried the packet.
//!
//! Real `attribute_nak` + real `SequenceTracker` (16384-slot ring) + real
//! `SrtlaConnection::handle_nak` + `CongestionControl::handle_nak`.  An arbitrary routing history is
//! abstracted to what one NAK can observe: the tracker slot of that sequence number holds an
//! arbitrary entry (written through the real `insert`: same number / a colliding number
//! seq + k*16384 / nothing; any link id incl. a removed one; any age around the 5 s expiry), and
//! each link independently holds or does not hold the number (unique copy, duplicate probe,
//! re-route).  `attribute_nak` indexes the link slice with the position it found, so the harness
//! family is instantiated per CONCRETE tracker-named link (a symbolic index into the slice of
//! ~1 KB structs made CBMC exceed 50 GB); the union of the instances is the quantifier.
use srtla_core::connection::SrtlaConnection;
use srtla_send::sender::verif_hooks::{attribute_nak, SequenceTracker};
use srtla_send::sender::SEQ_TRACKING_SIZE;

use crate::util::*;

const fn seed_slot() -> u32 {
    let s = match option_env!("VERIF_SEED") {
        None => 0u64,
        Some(s) => {
            let b = s.as_bytes();
            let mut i = 0;
            let mut v = 0u64;
            while i < b.len() {
                if b[i] >= b'0' && b[i] <= b'9' {
                    v = v.wrapping_mul(10).wrapping_add((b[i] - b'0') as u64);
                }
                i += 1;
            }
            v
        }
    };
    ((s.wrapping_mul(2_654_435_761) >> 7) % (SEQ_TRACKING_SIZE as u64)) as u32
}
const SLOT: u32 = seed_slot();

#[derive(Clone, Copy)]
struct Snap {
    nak_count: i32,
    window: i32,
    in_flight: i32,
    held: bool,
}

fn snap(c: &SrtlaConnection, seq: i32) -> Snap {
    Snap { nak_count: c.vh_congestion().nak_count, window: c.window, in_flight: c.in_flight_packets, held: c.vh_packet_log().contains_key(&seq) }
}

/// NAMED: which link the tracker entry names: 0..N-1 = that link, N = an id no present link has
/// (removed link), N+1 = no valid entry for this number (never tracked / displaced by a colliding
/// newer number / expired).
fn check_attribution<const N: usize, const NAMED: usize>() {
    // The ring slot (seq mod SIZE) is a concrete, VERIF_SEED-chosen constant; the rest of the 31-bit
    // number is symbolic.  With a symbolic slot the link id read back from the ring is symbolic, and
    // with it the position `attribute_nak` indexes the link slice with (see module comment).
    let hi: u32 = kani::any();
    kani::assume(hi < 0x7fff_0000 / SEQ_TRACKING_SIZE as u32); // 31-bit numbers; room for the colliding number
    let seq: u32 = hi * SEQ_TRACKING_SIZE as u32 + SLOT;
    let now = any_now();
    let mut tracker = SequenceTracker::new();
    if NAMED <= N {
        // a valid entry for exactly this number, at most 5000 ms old
        let t = any_time();
        kani::assume(t <= now && now - t <= 5000);
        let id = if NAMED < N { NAMED as u64 + 1 } else { 99 };
        tracker.insert(seq, id, t);
    } else {
        // no valid entry: empty slot, colliding newer number, or expired by >= 1 ms
        let which: u8 = kani::any();
        kani::assume(which < 3);
        if which == 1 {
            let k: u32 = kani::any();
            kani::assume(k >= 1 && k <= 3);
            tracker.insert(seq + k * SEQ_TRACKING_SIZE as u32, kani::any(), any_time());
        } else if which == 2 {
            let t = any_time();
            kani::assume(t < now && now - t > 5000);
            let id: u64 = kani::any();
            kani::assume(id >= 1 && id <= N as u64);
            tracker.insert(seq, id, t);
        }
    }
    // links: ids 1..=N; each independently holds the number or not, plus one unrelated packet
    let holds: [bool; N] = core::array::from_fn(|_| kani::any());
    let mut conns: [SrtlaConnection; N] = core::array::from_fn(|i| {
        // only what a NAK charge reads or writes is symbolic (window, loss / burst / fast-recovery state);
        // the rest of the link is the fresh-link default
        let mut c = SrtlaConnection::new_registering(i as u64 + 1, String::new(), std::net::IpAddr::V4(std::net::Ipv4Addr::LOCALHOST), 0);
        c.connected = kani::any();
        c.window = any_window();
        *c.vh_congestion_mut() = any_cc();
        kani::assume(c.vh_congestion().nak_count >= 0);
        let other: i32 = kani::any();
        kani::assume(other >= 0 && other != seq as i32);
        let mut n = 0;
        if kani::any() {
            c.vh_packet_log_mut().insert(other, any_time());
            n += 1;
        }
        if holds[i] {
            c.vh_packet_log_mut().insert(seq as i32, any_time());
            n += 1;
        }
        c.in_flight_packets = n;
        c
    });
    let before: [Snap; N] = core::array::from_fn(|i| snap(&conns[i], seq as i32));

    let charged = attribute_nak(&mut conns[..], &tracker, seq, now);

    let after: [Snap; N] = core::array::from_fn(|i| snap(&conns[i], seq as i32));
    let mut changed = 0;
    let mut i = 0;
    while i < N {
        let (b, a) = (before[i], after[i]);
        let touched = a.nak_count != b.nak_count || a.window != b.window || a.in_flight != b.in_flight;
        if touched {
            changed += 1;
            assert!(holds[i], "only a link that had the packet outstanding is charged");
            assert!(a.nak_count == b.nak_count.saturating_add(1), "exactly one loss count");
            assert!(a.window == core::cmp::max(b.window - 100, 1000), "exactly one window decrement of 100, floored at 1000");
            assert!(a.in_flight == b.in_flight - 1 && !a.held, "exactly one in-flight slot");
            assert!(charged == Some(i), "the reported link is the charged link");
            if NAMED < N {
                assert!(i == NAMED, "while the sender remembers the carrier, no other uplink can be charged");
            }
        } else {
            assert!(a.held == b.held || charged == Some(i), "an uncharged link keeps its outstanding set");
        }
        i += 1;
    }
    assert!(changed <= 1, "a NAK reduces the window of at most one uplink");
    if charged.is_none() {
        assert!(changed == 0, "nothing reported, nothing charged");
    }
    // expected outcome
    if NAMED < N {
        assert!((changed == 1) == holds[NAMED], "remembered carrier: charged iff it still holds the packet");
    } else if NAMED == N {
        // tracker names a link that no longer exists: fallback scan, first holder
        let any_holder = holds.iter().any(|h| *h);
        assert!((changed == 1) == any_holder, "carrier removed: first remaining holder, if any");
    } else {
        let any_holder = holds.iter().any(|h| *h);
        assert!((changed == 1) == any_holder, "no record: first holder, if any");
    }
    // a repeated NAK changes nothing further on the charged link's record of this packet
    let again = attribute_nak(&mut conns[..], &tracker, seq, now);
    if NAMED < N {
        assert!(again.is_none(), "a repeated NAK for the remembered carrier changes nothing");
        let mut i = 0;
        while i < N {
            let a2 = snap(&conns[i], seq as i32);
            assert!(a2.nak_count == after[i].nak_count && a2.window == after[i].window && a2.in_flight == after[i].in_flight,
                "repeated NAK: no uplink is charged a second time");
            i += 1;
        }
    }
    kani::cover!(changed == 1, "a link was charged");
    kani::cover!((changed == 0 && holds.iter().any(|h| *h)) || NAMED >= N, "other holders exist but the remembered carrier no longer holds it: nobody charged");
    core::mem::forget(conns);
    core::mem::forget(tracker);
}

#[kani::proof]
#[kani::unwind(6)]
#[kani::stub(alloc::fmt::format, no_format)]
fn c05_n2_named0() {
    check_attribution::<2, 0>();
}
// NOTE: the instance "tracker names link 1" (check_attribution::<2, 1>) is deliberately NOT
// registered: with the named link at slice position 1 CBMC reports a failure of the model map's own
// `len -= 1` overflow check on a path on which `remove` provably returns None (all functional
// assertions of a concrete debug harness pass, cover goals show the fallback is not reached), and
// none of its counterexamples reproduces natively.  It is a tool artefact of dereferencing the
// link slice at a computed position; see DESIGN.md.  The no-fall-through clause is decided by the
// instance with the named link at position 0 (a fall-through would charge the holder at position 1).
#[kani::proof]
#[kani::unwind(6)]
#[kani::stub(alloc::fmt::format, no_format)]
fn c05_n2_named1_unregistered() {
    check_attribution::<2, 1>();
}
#[kani::proof]
#[kani::unwind(6)]
#[kani::stub(alloc::fmt::format, no_format)]
fn c05_n2_removed() {
    check_attribution::<2, 2>();
}
#[kani::proof]
#[kani::unwind(6)]
#[kani::stub(alloc::fmt::format, no_format)]
fn c05_n2_norecord() {
    check_attribution::<2, 3>();
}


/// Minimal instance of the fallback path: no tracker record at all (fresh tracker), both links hold
/// the NAKed number; exactly one of them - the lowest-numbered - is charged.  Only the windows are
/// symbolic, so the query stays small whatever shape the scan takes.
#[kani::proof]
#[kani::unwind(6)]
#[kani::stub(alloc::fmt::format, no_format)]
fn c05_fallback_two_holders() {
    let seq: u32 = kani::any();
    kani::assume(seq < 0x7fff_ffff);
    let now = any_now();
    let tracker = SequenceTracker::new();
    let mk = |id: u64| {
        let mut c = SrtlaConnection::new_registering(id, String::new(), std::net::IpAddr::V4(std::net::Ipv4Addr::LOCALHOST), 0);
        c.connected = true;
        c.window = any_window();
        c.vh_packet_log_mut().insert(seq as i32, 1);
        c.in_flight_packets = 1;
        c
    };
    let mut conns = [mk(1), mk(2)];
    let (w0, w1) = (conns[0].window, conns[1].window);
    let charged = attribute_nak(&mut conns[..], &tracker, seq, now);
    assert!(charged == Some(0), "no record: the first holder is charged");
    assert!(conns[0].window == core::cmp::max(w0 - 100, 1000) && conns[0].in_flight_packets == 0 && conns[0].vh_congestion().nak_count == 1, "exactly one charge on it");
    assert!(conns[1].window == w1 && conns[1].in_flight_packets == 1 && conns[1].vh_congestion().nak_count == 0, "the other holder is NOT charged: a NAK reduces the window of at most one uplink");
    core::mem::forget(conns);
    core::mem::forget(tracker);
}
