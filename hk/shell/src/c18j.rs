//! C18, dispatcher half: the REAL `control::dispatch` (serde_json parser + `dispatch_inner` + `handle_method`)
//! on request lines whose text is concrete except for the digits of a numeric parameter, which are symbolic.
use srtla_core::mode::SchedulingMode;
use srtla_send::config::DynamicConfig;
use srtla_send::control::dispatch;

const DIGITS: usize = 5;

/// `{"jsonrpc":"2.0","id":7,"method":"set_conn_timeout","params":{"ms":DDDDD}}` with every D an arbitrary ASCII
/// digit: all values 0..=99999 (both sides of the 1000..60000 clamp) and the lines JSON rejects (leading zero).
#[kani::proof]
#[kani::unwind(24)]
fn c18_dispatch_set_conn_timeout_line() {
    let cfg = DynamicConfig::from_cli(SchedulingMode::Enhanced, true, true, 32, 3000, 4000);
    let before = cfg.snapshot();
    let mut buf = *b"{\"jsonrpc\":\"2.0\",\"id\":7,\"method\":\"set_conn_timeout\",\"params\":{\"ms\":00000}}";
    let at = buf.len() - 2 - DIGITS;
    let mut v: u64 = 0;
    let mut k = 0;
    while k < DIGITS {
        let d: u8 = kani::any();
        kani::assume(d >= b'0' && d <= b'9');
        buf[at + k] = d;
        v = v * 10 + (d - b'0') as u64;
        k += 1;
    }
    let line = unsafe { core::str::from_utf8_unchecked(&buf[..]) };
    let resp = dispatch(&cfg, None, None, line);
    assert!(resp.is_some(), "a request with an id gets exactly one response");
    let after = cfg.snapshot();
    if buf[at] == b'0' {
        // JSON has no leading zeros: the line is unparsable, nothing is applied
        assert!(after.conn_timeout_ms == before.conn_timeout_ms, "an unparsable line changes nothing");
    } else {
        let want = if v < 1000 { 1000 } else if v > 60000 { 60000 } else { v };
        assert!(after.conn_timeout_ms == want, "set_conn_timeout through the dispatcher applies the clamped value");
    }
    assert!(after.mode == before.mode && after.quality_enabled == before.quality_enabled && after.stall_deselect == before.stall_deselect, "nothing else changes");
    kani::cover!(v == 99999 && after.conn_timeout_ms == 60000, "clamped from above");
    kani::cover!(v == 12345 && after.conn_timeout_ms == 12345, "applied as given");
    kani::cover!(buf[at] == b'0', "leading zero: parse error");
    core::mem::forget(resp);
}
