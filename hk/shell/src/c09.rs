//! C09 – return path relays receiver traffic to the SRT client unmodified (real
//! `process_uplink_packet`, every datagram of 0..=24 bytes, any link / registration state).
use std::mem::MaybeUninit;

use srtla_core::connection::{LinkPhase, RttTracker, SrtlaConnection};
use srtla_core::registration::{SrtlaRegistrationManager, VhRegState};
use srtla_send::sender::verif_hooks::process_uplink_packet_fut as process_uplink_packet;

use crate::shellutil::*;
use crate::util::*;

/// Longest datagram drawn.  Build-time knob (`VERIF_C09_MAXD`, default 12; the registered checks set 24 so that the
/// 20-byte SRT ACK layout is inside the bound).  The smallvec model capacity (`VERIF_SV_CAP`) must be >= MAXD.
const MAXD: usize = parse_usize(option_env!("VERIF_C09_MAXD"), 12);

const fn parse_usize(s: Option<&str>, default: usize) -> usize {
    match s {
        None => default,
        Some(s) => {
            let b = s.as_bytes();
            let mut i = 0;
            let mut v = 0usize;
            while i < b.len() {
                v = v * 10 + (b[i] - b'0') as usize;
                i += 1;
            }
            v
        }
    }
}

fn be16(b: &[u8]) -> u16 {
    ((b[0] as u16) << 8) | b[1] as u16
}
fn be32(b: &[u8], o: usize) -> u32 {
    ((b[o] as u32) << 24) | ((b[o + 1] as u32) << 16) | ((b[o + 2] as u32) << 8) | b[o + 3] as u32
}

pub fn record_sample(t: &mut RttTracker, rtt: u64, now: u64) {
    t.last_rtt_measurement_ms = now;
    t.estimated_rtt_ms = rtt as f64;
}

fn any_manager() -> SrtlaRegistrationManager {
    let mut m = SrtlaRegistrationManager::new();
    let active: usize = kani::any();
    kani::assume(active <= 3);
    let ps: u8 = kani::any();
    kani::assume(ps <= 3);
    let oi = |x: bool| -> Option<usize> {
        if x {
            let i: usize = kani::any();
            kani::assume(i < 3);
            Some(i)
        } else {
            None
        }
    };
    m.vh_set_state(VhRegState {
        pending_reg2_idx: oi(kani::any()),
        pending_timeout_at_ms: any_time(),
        active_connections: active,
        broadcast_reg2_pending: kani::any(),
        reg1_target_idx: oi(kani::any()),
        reg1_next_send_at_ms: any_time(),
        probing_state: ps,
    });
    m.has_connected = kani::any();
    m
}

/// TY: 0 = any type code other than the seven the sender interprets (symbolic), 1 = typeless
/// (0..=1 bytes), otherwise the concrete type code.  One harness instance per class keeps the
/// dispatch concrete (a fully symbolic type made CBMC exceed 11 GB); the union of the instances is
/// all 65536 type codes.
fn uplink_datagram<const TY: u16>() {
    let now = any_now();
    set_clock(now);
    let mut conn = any_conn(1, SYM_INT);
    conn.rtt.waiting_for_keepalive_response = kani::any();
    conn.rtt.last_keepalive_sent_ms = any_time(); // any probe history, independent of the waiting flag (seed C09b)
    // representation invariant: a warming link has collected fewer probes than the (small) promotion threshold -
    // reaching it promotes the link to Live; a pre-state with billions of probes is unreachable
    if let LinkPhase::Warming { rtt_probes, .. } = conn.vh_phase() {
        kani::assume(*rtt_probes <= 1_000_000);
    }
    let mut reg = any_manager();
    let idx: usize = kani::any();
    kani::assume(idx < 3);
    let sock = MaybeUninit::uninit();
    let tx = MaybeUninit::uninit();
    let mut buf: [u8; MAXD] = kani::any();
    let len: usize = kani::any();
    kani::assume(len <= MAXD);
    if TY == 1 {
        kani::assume(len <= 1);
    } else {
        kani::assume(len >= 2);
        if TY == 0 {
            let t = be16(&buf);
            kani::assume(t != 0x9211 && t != 0x9201 && t != 0x9202 && t != 0x9210 && t != 0x9100 && t != 0x9000 && t != 0x8002 && t != 0x8003);
        } else {
            buf[0] = (TY >> 8) as u8;
            buf[1] = TY as u8;
        }
    }
    let data = &buf[..len];
    let known_client: bool = kani::any();
    let client_addr = if known_client { Some(client()) } else { None };
    // bound: NAK ranges at most 3 wide (range expansion itself is C15's subject)
    if len >= 12 && buf[0] == 0x80 && buf[1] == 0x03 {
        let mut o = 4;
        while o + 8 <= MAXD {
            if o + 8 <= len && buf[o] & 0x80 != 0 {
                let f = be32(&buf, o) & 0x7fff_ffff;
                let e = be32(&buf, o + 4);
                kani::assume(e < f || e - f <= 2);
            }
            o += 4;
        }
    }
    let (connected0, lr0, proof0, phase0) = (conn.connected, conn.last_received, conn.last_ack_or_rtt_sample_ms, *conn.vh_phase());
    let waiting0 = conn.rtt.waiting_for_keepalive_response;
    unsafe { INSTANT_SENDS = 0 };

    let inc = poll_once(process_uplink_packet(&mut conn, idx, &mut reg, fake_socket(&sock), fake_sender(&tx), client_addr, data));
    assert!(inc.is_ok(), "processing an arbitrary datagram never fails");
    let inc = inc.unwrap();

    let ty: Option<u16> = if len >= 2 { Some(be16(data)) } else { None };
    let is_reg = matches!(ty, Some(0x9211) | Some(0x9201) | Some(0x9202) | Some(0x9210));
    let internal = is_reg || matches!(ty, Some(0x9100) | Some(0x9000));
    let instant = unsafe { INSTANT_SENDS };

    // relay rule
    if len >= 2 && !internal {
        assert!(inc.forward_to_client.len() == 1, "a non-internal datagram is queued for the client exactly once");
        let f = &inc.forward_to_client[0];
        assert!(f.len() == len, "relayed datagram keeps its length");
        let k: usize = kani::any();
        kani::assume(k < MAXD);
        if k < len {
            assert!(f[k] == buf[k], "relayed datagram is byte-for-byte unchanged");
        }
    } else {
        assert!(inc.forward_to_client.is_empty(), "SRTLA-internal (or typeless) datagrams are never delivered to the client");
        assert!(instant == 0, "nor through the instant path");
    }
    if instant > 0 {
        assert!(ty == Some(0x8002) && known_client && instant == 1, "the instant path carries SRT ACKs only, once, and only to a known client");
        assert!(unsafe { INSTANT_LAST_LEN } == len && unsafe { INSTANT_LAST_B0 } == buf[0], "instant copy is the datagram itself");
    }
    if ty == Some(0x8002) && known_client {
        assert!(instant == 1, "an SRT ACK takes the fast path when the client is known");
    }
    // liveness vs delivery proof
    if len >= 2 && !is_reg {
        assert!(conn.last_received == Some(now), "every non-registration datagram refreshes the liveness stamp");
    }
    if conn.last_ack_or_rtt_sample_ms != proof0 {
        assert!(ty == Some(0x9000) && waiting0 && len >= 10, "only an answered keepalive counts as delivery proof here (earned ACKs are stamped by the ACK handler)");
        assert!(conn.last_ack_or_rtt_sample_ms == now, "proof stamped with the arrival time");
    }
    // connected flag: only REG3 sets it, only REG_ERR clears it
    if !connected0 && conn.connected {
        assert!(ty == Some(0x9202), "an uplink becomes connected only on a REG3 received on that uplink");
        assert!(matches!(conn.vh_phase(), LinkPhase::Warming { rtt_probes: 0, .. }) && conn.in_flight_packets == 0, "REG3 -> warming with clean accounting");
    }
    if connected0 && !conn.connected {
        assert!(ty == Some(0x9210), "only REG_ERR disconnects an uplink here");
    }
    if ty == Some(0x9202) {
        assert!(conn.connected && conn.last_received == Some(now) && conn.reconnection.connection_established_ms != 0, "REG3 connects the uplink");
    }
    if ty == Some(0x9210) {
        assert!(!conn.connected, "REG_ERR disconnects");
    }
    if !is_reg {
        assert!(conn.connected == connected0 && *conn.vh_phase() == phase0 || ty == Some(0x9000), "data-plane datagrams do not change connection state");
    }
    // parsed lists
    if ty != Some(0x8002) {
        assert!(inc.ack_numbers.is_empty(), "cumulative ACK numbers only from SRT ACKs");
    } else if len >= 20 {
        assert!(inc.ack_numbers.len() == 1 && inc.ack_numbers[0] == be32(&buf, 16), "SRT ACK number extracted");
    }
    if ty != Some(0x8003) {
        assert!(inc.nak_numbers.is_empty(), "NAK numbers only from SRT NAKs");
    }
    if ty != Some(0x9100) {
        assert!(inc.srtla_ack_numbers.is_empty(), "SRTLA ACK numbers only from SRTLA ACKs");
    } else if len >= 8 {
        assert!(inc.srtla_ack_numbers.len() == (len - 4) / 4, "every SRTLA ACK number extracted");
    }
    if inc.reg1_send.is_some() {
        assert!(ty == Some(0x9211), "an immediate REG1 only answers REG_NGP");
    }
    let _ = lr0;
    kani::cover!(TY != 0x8002 || (inc.forward_to_client.len() == 1 && len == MAXD), "SRT ACK relayed");
    kani::cover!(TY != 0x8003 || inc.nak_numbers.len() >= 3, "NAK list parsed and relayed");
    kani::cover!(TY != 0x9000 || (conn.last_ack_or_rtt_sample_ms == now && proof0 != now), "keepalive echo accepted as proof");
    kani::cover!(TY != 0x9202 || !connected0, "REG3 connects");
    kani::cover!(TY != 1 || len == 1, "one-byte datagram");
    kani::cover!(TY != 0 || (ty == Some(0x1234) && len == 2), "two-byte unknown type relayed");
    kani::cover!(TY != 0 || (len >= 4 && buf[0] & 0x80 == 0 && inc.forward_to_client.len() == 1), "SRT data packet from the receiver relayed");
    kani::cover!(TY != 0x9201 || len == MAXD, "REG2 consumed at any length");
    core::mem::forget(inc);
    core::mem::forget(conn);
    core::mem::forget(reg);
}

macro_rules! c09_instance {
    ($name:ident, $ty:expr) => {
        #[kani::proof]
        #[kani::unwind(10)]
        #[kani::stub(srtla_core::utils::now_ms, stub_now_ms)]
        #[kani::stub(tokio::net::UdpSocket::try_send_to, stub_try_send_to)]
        #[kani::stub(tokio::sync::mpsc::UnboundedSender::send, stub_unbounded_send)]
        #[kani::stub(srtla_core::connection::RttTracker::update_estimate, record_sample)]
        #[kani::stub(alloc::fmt::format, no_format)]
        fn $name() {
            uplink_datagram::<$ty>();
        }
    };
}
c09_instance!(c09_other_types, 0);
c09_instance!(c09_typeless, 1);
c09_instance!(c09_srt_ack, 0x8002);
c09_instance!(c09_srt_nak, 0x8003);
c09_instance!(c09_srtla_ack, 0x9100);
c09_instance!(c09_keepalive, 0x9000);
c09_instance!(c09_reg_ngp, 0x9211);
c09_instance!(c09_reg2, 0x9201);
c09_instance!(c09_reg3, 0x9202);
c09_instance!(c09_reg_err, 0x9210);
