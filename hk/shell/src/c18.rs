//! C18 – runtime control protocol: the configuration half (setters take effect, the connection
//! timeout is clamped and echoed as applied, mode conversions round-trip).
use srtla_core::mode::SchedulingMode;
use srtla_send::config::DynamicConfig;

fn any_mode() -> SchedulingMode {
    if kani::any() { SchedulingMode::Classic } else { SchedulingMode::Enhanced }
}

/// A sequence of three arbitrary setter calls against a model of the configuration: after every
/// call the next snapshot equals the model.
#[kani::proof]
#[kani::unwind(5)]
fn c18_setters_take_effect() {
    let (m0, no_quality, no_stall): (SchedulingMode, bool, bool) = (any_mode(), kani::any(), kani::any());
    let (min_in_flight, stale_ms, t0): (i32, u64, u64) = (kani::any(), kani::any(), kani::any());
    let cfg = DynamicConfig::from_cli(m0, no_quality, no_stall, min_in_flight, stale_ms, t0);
    let mut model = cfg.snapshot();
    // start-up goes through the same rules as the run-time setters (seed C18c: a range-only check is not enough)
    let want_t0 = if t0 < 1000 { 1000 } else if t0 > 60000 { 60000 } else { t0 };
    assert!(model.conn_timeout_ms == want_t0, "start-up timeout is clamped to 1000..60000 like a run-time set (in range = unchanged)");
    assert!(model.mode == m0 && model.quality_enabled == !no_quality && model.stall_deselect == !no_stall, "start-up flags are stored as given");
    assert!(model.stall_min_in_flight == min_in_flight && model.stall_ack_stale_ms == stale_ms, "start-up stall thresholds are stored as given");
    let mut i = 0;
    while i < 3 {
        let which: u8 = kani::any();
        kani::assume(which < 4);
        match which {
            0 => {
                let m = any_mode();
                cfg.set_mode(m);
                model.mode = m;
            }
            1 => {
                let e: bool = kani::any();
                cfg.set_quality_enabled(e);
                model.quality_enabled = e;
            }
            2 => {
                let e: bool = kani::any();
                cfg.set_stall_deselect(e);
                model.stall_deselect = e;
            }
            _ => {
                let ms: u64 = kani::any();
                let applied = cfg.set_conn_timeout_ms(ms);
                let want = if ms < 1000 { 1000 } else if ms > 60000 { 60000 } else { ms };
                assert!(applied == want, "timeout clamped to 1000..60000 ms and echoed as applied");
                model.conn_timeout_ms = want;
            }
        }
        let s = cfg.snapshot();
        assert!(s.mode == model.mode && s.quality_enabled == model.quality_enabled && s.stall_deselect == model.stall_deselect
            && s.stall_min_in_flight == model.stall_min_in_flight && s.stall_ack_stale_ms == model.stall_ack_stale_ms
            && s.conn_timeout_ms == model.conn_timeout_ms, "a successful set_* is visible in the next snapshot, and nothing else changes");
        assert!(cfg.mode() == model.mode, "mode getter agrees with the snapshot");
        assert!(s.effective_quality_enabled() == (model.quality_enabled && model.mode == SchedulingMode::Enhanced), "quality scoring is effective only in enhanced mode");
        // a clone shares the same state (the control thread and the data plane see one config)
        let c2 = cfg.clone();
        assert!(c2.snapshot().conn_timeout_ms == model.conn_timeout_ms && c2.snapshot().mode == model.mode, "clones share state");
        core::mem::forget(c2);
        i += 1;
    }
    kani::cover!(model.conn_timeout_ms == 60000, "clamped at the ceiling");
    kani::cover!(model.conn_timeout_ms == 1000, "clamped at the floor");
    core::mem::forget(cfg);
}

#[kani::proof]
fn c18_mode_codes() {
    let b: u8 = kani::any();
    let m = SchedulingMode::from_u8(b);
    assert!((b == 0) == (m == SchedulingMode::Classic), "0 = classic, anything else = enhanced");
    let m2 = any_mode();
    assert!(SchedulingMode::from_u8(m2.as_u8()) == m2, "mode code round-trips");
    assert!(m2.is_classic() == (m2 == SchedulingMode::Classic), "is_classic");
}
