//! C04 (second sentence) and C05 (what the tracker remembers) on the two shell pieces that put a client
//! datagram onto uplinks, each polled once as its OWN future (DESIGN.md 2.5):
//!
//! * `forward_via_connection` - the unique copy: exactly the chosen uplink's batch queue grows by one, the
//!   tracker remembers that uplink as the carrier of a data packet's sequence number, the routing choice is
//!   recorded, nothing else is touched;
//! * `send_stall_probes` - the sparse duplicate probes: an extra copy goes only to an uplink that is
//!   stall-gated AND connected, only on every 100th opportunity of that uplink, never to the carrier, and the
//!   tracker is not told about it.
//!
//! The I/O map is empty (sockets cannot exist in the model), so the flush branches are dead; the batch
//! queues start empty.  The composition of these pieces inside `handle_srt_packet` is not decided (nested
//! async fns, DESIGN.md 2.5).
use srtla_core::connection::SrtlaConnection;
use srtla_send::sender::verif_hooks::{forward_via_connection_fut, send_stall_probes_fut, ConnIoMap, SequenceTracker};

use crate::shellutil::*;
use crate::util::*;

const N: usize = 2;
const PKT: usize = 12;

fn packet() -> ([u8; PKT], usize, Option<u32>) {
    let buf: [u8; PKT] = kani::any();
    let n: usize = kani::any();
    kani::assume(n >= 1 && n <= PKT);
    let seq = if n >= 4 && buf[0] & 0x80 == 0 {
        Some(((buf[0] as u32) << 24) | ((buf[1] as u32) << 16) | ((buf[2] as u32) << 8) | buf[3] as u32)
    } else {
        None
    };
    (buf, n, seq)
}

fn forward<const SEL: usize>() {
    let now = any_now();
    set_clock(now);
    let mut conns: [SrtlaConnection; N] = core::array::from_fn(|i| any_conn(i as u64 + 1, SYM_INT));
    let conn_io: ConnIoMap = ConnIoMap::new();
    let mut last_sel: Option<usize> = if kani::any() { Some(kani::any::<usize>() % 3) } else { None };
    let mut tracker = SequenceTracker::new();
    let (buf, n, seq) = packet();
    // any earlier routing of this slot (seed C05c): the same number carried by ANOTHER uplink (a retransmission
    // now re-routed), a colliding older number, or nothing - written through the real insert at any earlier time
    let prior: u8 = kani::any();
    if let Some(s) = seq {
        let earlier = any_time();
        kani::assume(earlier <= now);
        match prior % 3 {
            0 => {}
            1 => tracker.insert(s, conns[1 - SEL].conn_id, earlier),
            _ => tracker.insert(s ^ (srtla_send::sender::SEQ_TRACKING_SIZE as u32), kani::any(), earlier),
        }
    }
    let q0: [i32; N] = core::array::from_fn(|i| conns[i].batch_sender.queued_count());
    let f0: [i32; N] = core::array::from_fn(|i| conns[i].in_flight_packets);
    let w0: [i32; N] = core::array::from_fn(|i| conns[i].window);

    poll_once(forward_via_connection_fut(SEL, &buf[..n], seq, &mut conns[..], &conn_io, &mut last_sel, &mut tracker, now));

    assert!(last_sel == Some(SEL), "the routing choice is recorded");
    let mut i = 0;
    while i < N {
        let grew = conns[i].batch_sender.queued_count() - q0[i];
        assert!(grew == if i == SEL { 1 } else { 0 }, "exactly the chosen uplink queues the unique copy, once");
        assert!(conns[i].window == w0[i] && conns[i].in_flight_packets == f0[i], "queueing does not touch windows or in-flight counts");
        i += 1;
    }
    if let Some(s) = seq {
        assert!(tracker.get(s, now) == Some(conns[SEL].conn_id), "C05: the tracker remembers the carrier of the unique copy");
    }
    kani::cover!(seq.is_some() && last_sel == Some(SEL), "data packet forwarded");
    kani::cover!(seq.is_some() && prior % 3 == 1, "re-routed retransmission: the record moves to the new carrier");
    kani::cover!(seq.is_some() && prior % 3 == 2, "colliding older number displaced");
    kani::cover!(seq.is_none(), "control packet forwarded");
    core::mem::forget(conns);
    core::mem::forget(tracker);
    core::mem::forget(conn_io);
}

fn probes<const SEL: usize>() {
    let now = any_now();
    set_clock(now);
    let mut conns: [SrtlaConnection; N] = core::array::from_fn(|i| any_conn(i as u64 + 1, SYM_INT));
    let conn_io: ConnIoMap = ConnIoMap::new();
    let tracker = SequenceTracker::new();
    let (buf, n, seq) = packet();
    kani::assume(seq.is_some()); // the caller only probes with data packets
    let q0: [i32; N] = core::array::from_fn(|i| conns[i].batch_sender.queued_count());
    let gated0: [bool; N] = core::array::from_fn(|i| *conns[i].vh_stall_gated());
    let conn0: [bool; N] = core::array::from_fn(|i| conns[i].connected);
    let ctr0: [u32; N] = core::array::from_fn(|i| *conns[i].vh_stall_probe_counter());
    let f0: [i32; N] = core::array::from_fn(|i| conns[i].in_flight_packets);

    poll_once(send_stall_probes_fut(SEL, &buf[..n], seq, &mut conns[..], &conn_io, now));

    let mut i = 0;
    while i < N {
        let grew = conns[i].batch_sender.queued_count() - q0[i];
        assert!(grew == 0 || grew == 1, "at most one probe copy per uplink");
        if grew == 1 {
            assert!(i != SEL, "the carrier of the unique copy gets no probe copy");
            assert!(gated0[i] && conn0[i], "C04: an extra copy is only a duplicate probe on a stall-gated, connected uplink");
            assert!(ctr0[i] == 99, "C04: and only on every 100th opportunity (sparse)");
        }
        if i != SEL && gated0[i] && conn0[i] && ctr0[i] == 99 {
            assert!(grew == 1, "a due probe is sent");
        }
        assert!(conns[i].in_flight_packets == f0[i], "queueing a probe does not touch in-flight counts");
        assert!(*conns[i].vh_stall_gated() == gated0[i], "probing never changes the gate");
        i += 1;
    }
    if let Some(s) = seq {
        assert!(tracker.get(s, now).is_none(), "C05: probes are not recorded in the tracker");
    }
    kani::cover!(conns[1 - SEL].batch_sender.queued_count() == q0[1 - SEL] + 1, "a probe was sent");
    kani::cover!(gated0[1 - SEL] && conn0[1 - SEL] && ctr0[1 - SEL] == 5, "gated link, probe not yet due");
    core::mem::forget(conns);
    core::mem::forget(tracker);
    core::mem::forget(conn_io);
}

macro_rules! inst {
    ($name:ident, $f:ident, $sel:expr) => {
        #[kani::proof]
        #[kani::unwind(6)]
        #[kani::stub(srtla_core::utils::now_ms, stub_now_ms)]
        #[kani::stub(alloc::fmt::format, no_format)]
        fn $name() {
            $f::<$sel>();
        }
    };
}
inst!(c04_forward_unique_copy_sel0, forward, 0);
inst!(c04_forward_unique_copy_sel1, forward, 1);
inst!(c04_probes_only_on_gated_sel0, probes, 0);
inst!(c04_probes_only_on_gated_sel1, probes, 1);
