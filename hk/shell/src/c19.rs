//! C19 – IP-list reload: the refusal rules of the reload parser and the purge of a removed
//! uplink's NAK-attribution records.
use std::net::IpAddr;
use std::str::FromStr;

use srtla_send::sender::verif_hooks::{analyze_ip_reload_text, IpReload, ReloadRefusal, SequenceTracker};
use srtla_send::sender::SEQ_TRACKING_SIZE;

use crate::util::*;

const MAXT: usize = 7;

/// Alphabet of the harness: digits, '.', ':', space, tab, CR, LF and one letter.
fn any_char() -> u8 {
    let k: u8 = kani::any();
    kani::assume(k < 12);
    match k {
        0 => b'0',
        1 => b'1',
        2 => b'2',
        3 => b'9',
        4 => b'.',
        5 => b':',
        6 => b' ',
        7 => b'\t',
        8 => b'\r',
        9 => b'\n',
        10 => b'a',
        _ => b'x',
    }
}

/// Every text of <= 7 bytes over that alphabet: refused iff no line parses; otherwise the applied
/// list is exactly the parsable (trimmed) lines in order, first_invalid_line is the first
/// non-blank unparsable line.  Oracle: a line splitter written here + the std address parser per
/// line (std's parser is trusted base; the reload logic is what is checked).
fn reload_text_rules<const LEN: usize>() {
    let bytes: [u8; MAXT] = core::array::from_fn(|_| any_char());
    let len: usize = LEN; // concrete per instance: symbolic lengths make every str operation symbolic
    let text = core::str::from_utf8(&bytes[..len]).unwrap();
    let got = analyze_ip_reload_text(text);

    // oracle
    let mut want: [Option<IpAddr>; 4] = [None; 4];
    let mut n = 0usize;
    let mut first_bad: Option<usize> = None;
    let mut saw = false;
    let mut line_no = 0usize;
    let mut start = 0usize;
    let mut i = 0usize;
    while i <= len {
        if i == len || bytes[i] == b'\n' {
            if !(i == len && start == len) {
                // a line [start, i) (a trailing empty segment after the last '\n' is not a line)
                line_no += 1;
                let mut a = start;
                let mut b = i;
                while a < b && (bytes[a] == b' ' || bytes[a] == b'\t' || bytes[a] == b'\r') {
                    a += 1;
                }
                while b > a && (bytes[b - 1] == b' ' || bytes[b - 1] == b'\t' || bytes[b - 1] == b'\r') {
                    b -= 1;
                }
                if a < b {
                    saw = true;
                    match IpAddr::from_str(core::str::from_utf8(&bytes[a..b]).unwrap()) {
                        Ok(ip) => {
                            if n < 4 {
                                want[n] = Some(ip);
                            }
                            n += 1;
                        }
                        Err(_) => {
                            if first_bad.is_none() {
                                first_bad = Some(line_no);
                            }
                        }
                    }
                }
            }
            start = i + 1;
        }
        i += 1;
    }
    match got {
        IpReload::Refuse(ReloadRefusal::Empty) => {
            assert!(!saw && n == 0, "refused as empty iff there is no non-blank line");
        }
        IpReload::Refuse(ReloadRefusal::NoValidIps { first_invalid_line }) => {
            assert!(saw && n == 0, "refused as all-invalid iff there is content but no parsable address");
            assert!(Some(first_invalid_line) == first_bad, "first invalid line reported");
        }
        IpReload::Refuse(_) => {
            assert!(false, "the text analyser never reports a missing file");
        }
        IpReload::Apply { ips, first_invalid_line } => {
            assert!(n >= 1, "applied only if at least one address parses");
            assert!(ips.len() == n, "the applied list holds exactly the parsable lines");
            let mut k = 0;
            while k < 4 {
                if k < n {
                    assert!(Some(ips[k]) == want[k], "parsable lines are applied in file order");
                }
                k += 1;
            }
            assert!(first_invalid_line == first_bad, "first skipped line reported");
        }
    }
    kani::cover!(n == 2 || LEN < 5, "two addresses");
    kani::cover!((n == 1 && first_bad.is_some()) || LEN < 4, "mixed valid and invalid lines");
    kani::cover!((saw && n == 0) || LEN == 0, "only garbage");
    kani::cover!((!saw) && n == 0, "blank text");
}

macro_rules! reload_instance {
    ($name:ident, $len:expr) => {
        #[kani::proof]
        #[kani::unwind(10)]
        fn $name() {
            reload_text_rules::<$len>();
        }
    };
}
reload_instance!(c19_reload_text_len0, 0);
reload_instance!(c19_reload_text_len1, 1);
reload_instance!(c19_reload_text_len2, 2);
reload_instance!(c19_reload_text_len3, 3);
reload_instance!(c19_reload_text_len4, 4);
reload_instance!(c19_reload_text_len5, 5);
reload_instance!(c19_reload_text_len6, 6);
reload_instance!(c19_reload_text_len7, 7);

/// Removing an uplink purges exactly its attribution records.
#[kani::proof]
#[kani::unwind(18)]
fn c19_tracker_purge() {
    let mut t = SequenceTracker::new();
    let now = any_now();
    let (s1, s2, s3): (u32, u32, u32) = (kani::any(), kani::any(), kani::any());
    let m = SEQ_TRACKING_SIZE as u32 - 1;
    kani::assume((s1 & m) != (s2 & m) && (s1 & m) != (s3 & m) && (s2 & m) != (s3 & m)); // three different slots
    let gone: u64 = kani::any();
    let stay: u64 = kani::any();
    kani::assume(gone != 0 && stay != 0 && gone != stay);
    t.insert(s1, gone, now);
    t.insert(s2, stay, now);
    t.insert(s3, gone, now);
    assert!(t.get(s1, now) == Some(gone) && t.get(s2, now) == Some(stay), "records readable before the reload");
    t.remove_connection(gone);
    assert!(t.get(s1, now).is_none() && t.get(s3, now).is_none(), "the removed uplink's records are purged");
    assert!(t.get(s2, now) == Some(stay), "the surviving uplink's records are untouched");
    core::mem::forget(t);
}
