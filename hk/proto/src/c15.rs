//! C15 – wire codec is total, bounded and matches the SRTLA/SRT layouts.
//!
//! Every decoder of srtla-protocol is run on a symbolic byte string (symbolic length AND symbolic
//! bytes) and compared with a reference decoder written here from the layout in the property
//! statement; every builder is run on symbolic arguments and decoded back.  Absence of panics is
//! part of every harness (Kani turns any reachable panic / out-of-bounds index / arithmetic
//! overflow into a failed check).
use srtla_protocol::*;

fn be16(b: &[u8], o: usize) -> u16 {
    ((b[o] as u16) << 8) | b[o + 1] as u16
}
fn be32(b: &[u8], o: usize) -> u32 {
    ((b[o] as u32) << 24) | ((b[o + 1] as u32) << 16) | ((b[o + 2] as u32) << 8) | b[o + 3] as u32
}
fn be64(b: &[u8], o: usize) -> u64 {
    ((be32(b, o) as u64) << 32) | be32(b, o + 4) as u64
}

fn ref_type(b: &[u8]) -> Option<u16> {
    if b.len() >= 2 { Some(be16(b, 0)) } else { None }
}

/// Fixed-size decoders on every byte string of 0..=24 bytes.
#[kani::proof]
#[kani::unwind(9)]
fn c15_fixed_decoders_24() {
    let buf: [u8; 24] = kani::any();
    let len: usize = kani::any();
    kani::assume(len <= 24);
    let b = &buf[..len];
    let t = ref_type(b);

    assert!(get_packet_type(b) == t, "packet type = first two bytes, big endian; None below 2 bytes");

    // SRT data sequence number: 32-bit big endian at 0..4, only when the top bit is clear
    let seq = get_srt_sequence_number(b);
    if len >= 4 && (buf[0] & 0x80) == 0 {
        assert!(seq == Some(be32(b, 0)), "data packet: clear top bit, sequence number = bytes 0..4");
    } else {
        assert!(seq.is_none(), "control packet / short packet has no sequence number");
    }
    // retransmit flag: bit 2 of byte 4 of a data packet
    let rexmit = is_srt_data_retransmit(b);
    assert!(rexmit == (len >= 8 && (buf[0] & 0x80) == 0 && (buf[4] & 0x04) != 0), "retransmit flag at bit 2 of byte 4");
    if rexmit {
        assert!(seq.is_some(), "a retransmit-flagged packet is a data packet");
    }

    // REG frames: exact lengths
    assert!(!is_srtla_reg1(b) && !is_srtla_reg2(b), "REG1/REG2 are exactly 258 bytes; nothing shorter qualifies");
    assert!(is_srtla_reg3(b) == (len == 2 && t == Some(0x9202)), "REG3 is exactly 2 bytes of type 0x9202");
    assert!(is_srtla_keepalive(b) == (t == Some(0x9000)), "keepalive type 0x9000");
    assert!(is_srt_ack(b) == (t == Some(0x8002)), "SRT ACK type 0x8002");

    // keepalive timestamp: 64-bit big endian at 2..10
    let ts = extract_keepalive_timestamp(b);
    if len >= 10 && t == Some(0x9000) {
        assert!(ts == Some(be64(b, 2)), "keepalive timestamp = bytes 2..10 big endian");
    } else {
        assert!(ts.is_none(), "no timestamp from a short or non-keepalive frame");
    }

    // SRT ACK number at bytes 16..20
    let ack = parse_srt_ack(b);
    if len >= 20 && t == Some(0x8002) {
        assert!(ack == Some(be32(b, 16)), "SRT ACK number = bytes 16..20 big endian");
    } else {
        assert!(ack.is_none(), "no ACK number from a short or non-ACK frame");
    }
    kani::cover!(ack.is_some(), "an SRT ACK decoded");
    kani::cover!(ts.is_some(), "a keepalive timestamp decoded");
    kani::cover!(rexmit, "retransmit flag seen");
    kani::cover!(len == 0, "empty datagram");
    kani::cover!(len == 1, "one-byte datagram");
}

/// Extended keepalive decoder on every byte string of 0..=40 bytes.
#[kani::proof]
#[kani::unwind(9)]
fn c15_conn_info_decoder_40() {
    let buf: [u8; 40] = kani::any();
    let len: usize = kani::any();
    kani::assume(len <= 40);
    let b = &buf[..len];
    let got = extract_keepalive_conn_info(b);
    let ok = len >= 38 && be16(b, 0) == 0x9000 && be16(b, 10) == 0xc01f && be16(b, 12) == 0x0001;
    if ok {
        let want = ConnectionInfo {
            conn_id: be32(b, 14),
            window: be32(b, 18) as i32,
            in_flight: be32(b, 22) as i32,
            rtt_ms: be32(b, 26),
            nak_count: be32(b, 30),
            bitrate_bytes_per_sec: be32(b, 34),
        };
        assert!(got == Some(want), "extended keepalive fields at offsets 14/18/22/26/30/34");
    } else {
        assert!(got.is_none(), "not an extended keepalive (short, wrong type, magic or version)");
    }
    kani::cover!(ok, "a valid extended keepalive");
    kani::cover!(len == 37 && be16(b, 0) == 0x9000, "one byte short");
}

/// REG1 / REG2 predicates around the 258-byte boundary.
#[kani::proof]
fn c15_reg_predicates_258() {
    let buf: [u8; 260] = kani::any();
    let len: usize = kani::any();
    kani::assume(len >= 256 && len <= 260);
    let b = &buf[..len];
    let t = be16(b, 0);
    assert!(is_srtla_reg1(b) == (len == 258 && t == 0x9200), "REG1 = 258 bytes of type 0x9200");
    assert!(is_srtla_reg2(b) == (len == 258 && t == 0x9201), "REG2 = 258 bytes of type 0x9201");
    assert!(!is_srtla_reg3(b), "REG3 is 2 bytes");
    kani::cover!(is_srtla_reg1(b), "a REG1");
    kani::cover!(is_srtla_reg2(b), "a REG2");
}

/// SRTLA ACK: 4-byte header plus big-endian 32-bit numbers.
#[kani::proof]
#[kani::unwind(8)]
fn c15_srtla_ack_decoder_24() {
    let buf: [u8; 24] = kani::any();
    let len: usize = kani::any();
    kani::assume(len <= 24);
    let b = &buf[..len];
    let out = parse_srtla_ack(b);
    if len >= 8 && be16(b, 0) == 0x9100 {
        let n = (len - 4) / 4;
        assert!(out.len() == n, "one number per complete 4 bytes after the 4-byte header");
        let mut k = 0;
        while k < n {
            assert!(out[k] == be32(b, 4 + 4 * k), "SRTLA ACK number k = bytes 4+4k.. big endian");
            k += 1;
        }
    } else {
        assert!(out.is_empty(), "short or non-ACK frame yields nothing");
    }
    kani::cover!(out.len() == 5, "five numbers decoded");
    kani::cover!(len == 11 && out.len() == 1, "trailing bytes ignored");
}

const REF_MAX: usize = 6;

/// Reference NAK decoder written from the SRT loss-list layout: after the 4-byte header, 32-bit
/// big-endian words; a word with the top bit set opens a range [word & 0x7fffffff, next word]
/// (inclusive), any other word is a single number.  At most 1000 entries are produced by range
/// expansion.  A range opener without a following word ends the list.
fn ref_nak(b: &[u8], out: &mut [u32; REF_MAX]) -> usize {
    let mut n = 0usize;
    if b.len() < 8 || be16(b, 0) != 0x8003 {
        return 0;
    }
    let words = (b.len() - 4) / 4;
    let mut w = 0;
    while w < words {
        let v = be32(b, 4 + 4 * w);
        w += 1;
        if v & 0x8000_0000 != 0 {
            if w >= words {
                break;
            }
            let first = v & 0x7fff_ffff;
            let last = be32(b, 4 + 4 * w);
            w += 1;
            if first <= last {
                let mut s = first as u64;
                while s <= last as u64 && n < 1000 {
                    if n < REF_MAX {
                        out[n] = s as u32;
                    }
                    n += 1;
                    s += 1;
                }
            }
        } else {
            if n < REF_MAX {
                out[n] = v;
            }
            n += 1;
        }
    }
    n
}

/// NAK decoder, differential against the reference, on every byte string of 0..=16 bytes (three
/// list words) whose ranges are at most 3 wide (wider ranges: c15_nak_range_cap).
#[kani::proof]
#[kani::unwind(7)]
fn c15_nak_decoder_16() {
    let buf: [u8; 16] = kani::any();
    let len: usize = kani::any();
    kani::assume(len <= 16);
    let b = &buf[..len];
    // bound: every (potential) range is at most 3 wide
    if len >= 12 && buf[4] & 0x80 != 0 {
        let f = be32(b, 4) & 0x7fff_ffff;
        let e = be32(b, 8);
        kani::assume(e < f || e - f <= 2);
    }
    if len >= 16 && buf[8] & 0x80 != 0 {
        let f = be32(b, 8) & 0x7fff_ffff;
        let e = be32(b, 12);
        kani::assume(e < f || e - f <= 2);
    }
    let mut want = [0u32; REF_MAX];
    let n = ref_nak(b, &mut want);
    // MODEL-ONLY-BEGIN
    smallvec::model_set_push_limit(n);
    // MODEL-ONLY-END
    let got = parse_srt_nak(b);
    // MODEL-ONLY-BEGIN
    smallvec::model_set_push_limit(usize::MAX);
    // MODEL-ONLY-END
    assert!(got.len() == n, "NAK list length equals the reference decoder's");
    assert!(n <= REF_MAX, "bound of this harness");
    let k: usize = kani::any();
    kani::assume(k < REF_MAX);
    if k < n {
        assert!(got[k] == want[k], "NAK entry k equals the reference decoder's");
    }
    assert!(got.len() <= 1000 + len / 4, "at most 1000 expanded entries plus one per 4 bytes");
    kani::cover!(n == 3 && buf[4] & 0x80 == 0, "three singles");
    kani::cover!(n == 4 && buf[4] & 0x80 == 0, "single then range of three");
    kani::cover!(len == 12 && n == 0 && be16(b, 0) == 0x8003, "range opener with inverted bounds");
    kani::cover!(len == 8 && be16(b, 0) == 0x8003 && buf[4] & 0x80 != 0 && n == 0, "dangling range opener");
}

/// Singles only (no range openers): every byte string of 0..=24 bytes.
#[kani::proof]
#[kani::unwind(7)]
fn c15_nak_singles_24() {
    let buf: [u8; 24] = kani::any();
    let len: usize = kani::any();
    kani::assume(len <= 24);
    kani::assume(buf[4] & 0x80 == 0 && buf[8] & 0x80 == 0 && buf[12] & 0x80 == 0 && buf[16] & 0x80 == 0 && buf[20] & 0x80 == 0);
    let b = &buf[..len];
    let got = parse_srt_nak(b);
    if len >= 8 && be16(b, 0) == 0x8003 {
        let n = (len - 4) / 4;
        assert!(got.len() == n, "one entry per complete word");
        let k: usize = kani::any();
        kani::assume(k < n);
        assert!(got[k] == be32(b, 4 + 4 * k), "entry k = word k big endian");
    } else {
        assert!(got.is_empty(), "short or non-NAK frame yields nothing");
    }
    kani::cover!(got.len() == 5, "five singles");
}

// MODEL-ONLY-BEGIN (uses the model crate's API; stripped from native replay copies)
/// Count-only stand-in for `SmallVec::push` (the cap is a claim about the NUMBER of entries; their
/// values are decided by c15_nak_decoder_16).  Removes 1000 symbolic array writes from the query.
fn push_count_only<T, const N: usize>(v: &mut smallvec::SmallVec<T, N>, t: T) {
    v.model_push_count_only(t)
}

fn put32(b: &mut [u8], o: usize, v: u32) {
    b[o] = (v >> 24) as u8;
    b[o + 1] = (v >> 16) as u8;
    b[o + 2] = (v >> 8) as u8;
    b[o + 3] = v as u8;
}

/// The 1000-entry cap: one range with fully symbolic 32-bit bounds, including a range ending at
/// 0xFFFF_FFFF (where a naive `seq <= end` loop never terminates), optionally followed by a single.
#[kani::proof]
#[kani::unwind(6)] // every loop except the range-expansion loop, which gets 1003 via --unwindset
#[kani::stub(smallvec::SmallVec::push, push_count_only)]
fn c15_nak_range_cap() {
    let first: u32 = kani::any();
    let last: u32 = kani::any();
    let mut b = [0u8; 16];
    b[0] = 0x80;
    b[1] = 0x03;
    put32(&mut b, 4, first | 0x8000_0000);
    put32(&mut b, 8, last);
    let tail: u32 = kani::any();
    kani::assume(tail & 0x8000_0000 == 0);
    put32(&mut b, 12, tail);
    let len: usize = if kani::any() { 12 } else { 16 };
    let out = parse_srt_nak(&b[..len]);
    let lo = (first & 0x7fff_ffff) as u64;
    let hi = last as u64;
    let width = if lo <= hi { hi - lo + 1 } else { 0 };
    let want = if width > 1000 { 1000 } else { width } + if len == 16 { 1 } else { 0 };
    assert!(out.len() as u64 == want, "range expands to min(1000, width) entries (+1 trailing single)");
    assert!(out.len() <= 1000 + len / 4, "at most 1000 range-expanded entries plus one per 4 payload bytes");
    kani::cover!(last == 0xffff_ffff && out.len() == 1000, "range ending at 0xFFFFFFFF is capped");
    kani::cover!(out.len() == 1001, "capped range plus a single");
    kani::cover!(width == 999, "just under the cap");
    kani::cover!(width == 0 && len == 12, "inverted range");
}

/// Two ranges (20 bytes): the cap is on the total, a second range cannot add entries beyond it.
#[kani::proof]
#[kani::unwind(6)] // every loop except the range-expansion loop, which gets 1003 via --unwindset
#[kani::stub(smallvec::SmallVec::push, push_count_only)]
fn c15_nak_two_ranges_cap() {
    let mut b = [0u8; 20];
    b[0] = 0x80;
    b[1] = 0x03;
    let (f1, l1, f2, l2): (u32, u32, u32, u32) = (kani::any(), kani::any(), kani::any(), kani::any());
    put32(&mut b, 4, f1 | 0x8000_0000);
    put32(&mut b, 8, l1);
    put32(&mut b, 12, f2 | 0x8000_0000);
    put32(&mut b, 16, l2);
    let out = parse_srt_nak(&b);
    let w = |f: u32, l: u32| -> u64 {
        let lo = (f & 0x7fff_ffff) as u64;
        if lo <= l as u64 { l as u64 - lo + 1 } else { 0 }
    };
    let total = w(f1, l1) + w(f2, l2);
    let want = if total > 1000 { 1000 } else { total };
    assert!(out.len() as u64 == want, "two ranges expand to min(1000, total width) entries");
    kani::cover!(w(f1, l1) == 400 && w(f2, l2) > 700, "second range truncated by the cap");
}

// MODEL-ONLY-END

// ------------------------------------------------------------------ builders

#[kani::proof]
#[kani::unwind(260)]
fn c15_build_reg1_reg2() {
    let id: [u8; 256] = kani::any();
    let p1 = create_reg1_packet(&id);
    let p2 = create_reg2_packet(&id);
    assert!(p1.len() == 258 && p2.len() == 258, "REG1/REG2 are 258 bytes");
    assert!(p1[0] == 0x92 && p1[1] == 0x00, "REG1 type 0x9200");
    assert!(p2[0] == 0x92 && p2[1] == 0x01, "REG2 type 0x9201");
    let k: usize = kani::any();
    kani::assume(k < 256);
    assert!(p1[2 + k] == id[k] && p2[2 + k] == id[k], "id copied verbatim at bytes 2..258");
    assert!(is_srtla_reg1(&p1) && is_srtla_reg2(&p2), "built frames satisfy their own predicates");
    assert!(get_packet_type(&p1) == Some(SRTLA_TYPE_REG1) && get_packet_type(&p2) == Some(SRTLA_TYPE_REG2), "type decodes back");
}

#[kani::proof]
#[kani::unwind(12)]
fn c15_build_keepalives() {
    let now: u64 = kani::any();
    let k = create_keepalive_packet(now);
    assert!(k.len() == 10 && k[0] == 0x90 && k[1] == 0x00, "standard keepalive: 10 bytes, type 0x9000");
    assert!(extract_keepalive_timestamp(&k) == Some(now), "standard keepalive timestamp round-trips");
    assert!(be64(&k, 2) == now, "timestamp is big endian at 2..10");

    let info = ConnectionInfo {
        conn_id: kani::any(),
        window: kani::any(),
        in_flight: kani::any(),
        rtt_ms: kani::any(),
        nak_count: kani::any(),
        bitrate_bytes_per_sec: kani::any(),
    };
    let e = create_keepalive_packet_ext(info, now);
    assert!(e.len() == 38, "extended keepalive is 38 bytes");
    let mut i = 0;
    while i < 10 {
        assert!(e[i] == k[i], "first 10 bytes are a standard keepalive of the same timestamp");
        i += 1;
    }
    assert!(extract_keepalive_timestamp(&e) == Some(now), "extended keepalive timestamp round-trips");
    assert!(extract_keepalive_conn_info(&e) == Some(info), "telemetry round-trips");
    assert!(be16(&e, 10) == 0xc01f && be16(&e, 12) == 1, "magic and version");
    assert!(be32(&e, 14) == info.conn_id && be32(&e, 18) == info.window as u32 && be32(&e, 22) == info.in_flight as u32
        && be32(&e, 26) == info.rtt_ms && be32(&e, 30) == info.nak_count && be32(&e, 34) == info.bitrate_bytes_per_sec,
        "telemetry fields at their documented offsets");
}

#[kani::proof]
#[kani::unwind(22)]
fn c15_build_ack() {
    let acks: [u32; 4] = kani::any();
    let n: usize = kani::any();
    kani::assume(n <= 4);
    let p = create_ack_packet(&acks[..n]);
    assert!(p.len() == 4 + 4 * n, "SRTLA ACK = 4-byte header + 4 bytes per number");
    assert!(p[0] == 0x91 && p[1] == 0x00, "SRTLA ACK type 0x9100");
    let back = parse_srtla_ack(&p);
    if n >= 1 {
        assert!(back.len() == n, "all numbers decode back");
        let mut k = 0;
        while k < n {
            assert!(back[k] == acks[k], "number k round-trips");
            assert!(be32(&p, 4 + 4 * k) == acks[k], "number k is big endian at 4+4k");
            k += 1;
        }
    } else {
        assert!(back.is_empty(), "an empty ACK decodes to nothing");
    }
    kani::cover!(n == 4, "four numbers");
}
