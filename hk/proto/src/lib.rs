#![allow(dead_code, unused_imports, clippy::all)]
#[cfg(kani)]
mod c15;
