#![allow(dead_code)]
#[cfg(kani)]
mod probe {
    use srtla_protocol::*;
    #[kani::proof]
    #[kani::unwind(9)]
    fn probe_ack() {
        let buf: [u8; 24] = kani::any();
        let len: usize = kani::any();
        kani::assume(len <= 24);
        let r = parse_srt_ack(&buf[..len]);
        if len >= 20 && buf[0] == 0x80 && buf[1] == 0x02 {
            assert_eq!(r, Some(u32::from_be_bytes([buf[16], buf[17], buf[18], buf[19]])));
        } else {
            assert!(r.is_none());
        }
    }
}
