// Which selector does the priority override in the shell's handle_srt_packet call?  The selection harnesses
// (c03.rs) assert the eligibility contract on THAT function, so that a tree whose call site goes back to the
// unfiltered `select_best_quality_idx` (defect F5) is reported as a violation rather than as a build error.
// The repository root is read from this crate's own path dependency (bin/check rewrites it for seed testing).
use std::fs;

fn main() {
    let dir = std::env::var("CARGO_MANIFEST_DIR").unwrap();
    let manifest = fs::read_to_string(format!("{dir}/Cargo.toml")).unwrap_or_default();
    let mut repo = String::from("/repo");
    for line in manifest.lines() {
        if line.trim_start().starts_with("srtla-core") {
            if let Some(i) = line.find("path = \"") {
                let rest = &line[i + 8..];
                if let Some(j) = rest.find('"') {
                    let p = &rest[..j];
                    if let Some(k) = p.find("/crates/srtla-core") {
                        repo = p[..k].to_string();
                    }
                }
            }
        }
    }
    let call_site = format!("{repo}/src/sender/packet_handler.rs");
    println!("cargo:rerun-if-changed={call_site}");
    println!("cargo:rerun-if-changed={dir}/Cargo.toml");
    println!("cargo:rustc-check-cfg=cfg(override_uses_eligible_selector)");
    let text = fs::read_to_string(&call_site).unwrap_or_default();
    if text.contains("select_best_quality_eligible_idx(") {
        println!("cargo:rustc-cfg=override_uses_eligible_selector");
    }
}
