//! C11 (selection part) – enhanced selection vs an independently recomposed score oracle.
//!
//! The capacity score and the two float-heavy leaves are abstracted exactly as in c03/c10 (their
//! real formulas and ranges are decided in c10_get_score_formula and c11_*_range); everything else
//! – gate precedence, phase weight, quality multiplier, 2 % gate penalty, 1.10 hysteresis, argmax –
//! is the real `enhanced::select_connection` compared against an oracle written from the statement
//! with the constants as literals.
use srtla_core::config_snapshot::ConfigSnapshot;
use srtla_core::connection::{LinkPhase, SrtlaConnection};
use srtla_core::mode::SchedulingMode;
use srtla_core::selection::select_connection_idx;

use crate::c03::{cap_exceeded_abs, soft_cap_abs};
use crate::c10::abs_score;
use crate::util::*;

#[derive(Clone, Copy)]
struct Cand {
    skipped: bool,
    score: f64,
}

fn oracle<const N: usize>(conns: &[SrtlaConnection; N], now: u64, cfg: &ConfigSnapshot, quality: bool) -> ([Cand; N], bool) {
    // eligibility, from raw fields
    let elig: [bool; N] = core::array::from_fn(|i| {
        ref_usable(&conns[i], now, cfg.conn_timeout_ms) && !*conns[i].vh_stall_gated()
    });
    let any_unconstrained = (0..N).any(|i| elig[i] && !conns[i].weak && !conns[i].loss_degraded && !cap_exceeded_abs(&conns[i]));
    let c: [Cand; N] = core::array::from_fn(|i| {
        let l = &conns[i];
        if !elig[i] || (any_unconstrained && cap_exceeded_abs(l)) {
            return Cand { skipped: true, score: 0.0 };
        }
        let weight = match l.vh_phase() {
            LinkPhase::Warming { .. } => 0.8,
            LinkPhase::Registering => 0.0,
            _ => 1.0,
        };
        let gate = if any_unconstrained && (l.weak || l.loss_degraded) { 0.02 } else { 1.0 };
        let base = abs_score(l) as f64 * weight;
        let cap = soft_cap_abs(l);
        let score = if quality { base * l.vh_quality_cache().multiplier * cap * gate } else { base * cap * gate };
        Cand { skipped: false, score }
    });
    (c, any_unconstrained)
}

fn check_enhanced<const N: usize, const SMALL: bool>() {
    let now = any_now();
    let cfg = any_config(SchedulingMode::Enhanced);
    let vals: [ConnVals; N] = core::array::from_fn(|_| {
        let mut v = any_vals(SYM_LEAF);
        kani::assume(now.saturating_sub(v.quality_at_ms) < 50); // cached multiplier is what the selector uses
        // Score factors are drawn from a grid (stated bound): SAT does not finish on the comparison of two
        // fully symbolic f64 product pipelines (selector vs oracle); over a grid it does.  The grid contains
        // the extremes of every documented range, equal values (ties) and values 10 % apart (hysteresis edge).
        // SMALL = the sub-grid used by the quick-tier instance (range extremes, 1.0 and the pair 10 % apart);
        // (a sub-grid instance was measured and is NOT faster - 685 s - so it is not registered; the oracle runs in the thorough tier)
        let qk: u8 = if SMALL { let k: u8 = kani::any(); [0u8, 2, 3][(k % 3) as usize] } else { kani::any() };
        v.quality_mult = match qk % 5 {
            0 => 0.35,
            1 => 0.5,
            2 => 1.0,
            3 => 1.1,
            _ => 1.1 * 1.03,
        };
        let sk: u8 = if SMALL { let k: u8 = kani::any(); [0u8, 1, 2, 5][(k % 4) as usize] } else { kani::any() };
        v.consecutive_acks_without_nak = match sk % 6 {
            0 => 0,
            1 => 10,
            2 => 11,
            3 => 20,
            4 => 22,
            _ => 1000,
        };
        v
    });
    let mut conns: [SrtlaConnection; N] = core::array::from_fn(|i| build_conn(i as u64 + 1, &vals[i]));
    let last = if kani::any() { Some(kani::any::<usize>() % (N + 1)) } else { None };

    let res = select_connection_idx(&mut conns[..], last, now, &cfg);
    // oracle on the post-gate state (stall flags are recomputed by the call; C03/C12 decide that part)
    let (cand, any_unc) = oracle(&conns, now, &cfg, cfg.quality_enabled);

    // reference argmax: first maximum among non-skipped
    let mut best: Option<usize> = None;
    let mut best_score = -1.0f64;
    let mut i = 0;
    while i < N {
        if !cand[i].skipped && cand[i].score > best_score {
            best_score = cand[i].score;
            best = Some(i);
        }
        i += 1;
    }
    // hysteresis
    let mut want = best;
    if let Some(l) = last {
        if l < N && best != Some(l) && !cand[l].skipped && best_score < cand[l].score * 1.10 {
            want = Some(l);
        }
    }
    assert!(res == want, "C11: enhanced choice = argmax of base x phase weight x quality x soft cap x gate, with 10 % hysteresis");
    if let Some(r) = res {
        assert!(!cand[r].skipped, "C11: a skipped uplink (ineligible, or over its in-flight cap while an unconstrained uplink exists) is never chosen");
        if any_unc {
            assert!(!cap_exceeded_abs(&conns[r]), "C11: an uplink over its in-flight cap is never chosen while an unconstrained uplink exists");
        }
        if let Some(l) = last {
            if l < N && r != l {
                assert!(cand[l].skipped || cand[r].score >= cand[l].score * 1.10, "C11: the scheduler leaves the previous uplink only if it was skipped or another scores >= 1.10x");
            }
        }
    }
    // stability: re-running on the unchanged state (previous = this choice) returns the same uplink
    let again = select_connection_idx(&mut conns[..], res, now, &cfg);
    assert!(again == res, "C11: re-running selection on an unchanged state returns the same uplink");

    kani::cover!(res.is_some() && last.is_some() && res == last && best != last, "hysteresis hold");
    kani::cover!(res.is_some() && last.is_some() && last != res && last.unwrap() < N && !cand[last.unwrap()].skipped, "switch past the 10 % threshold");
    kani::cover!(any_unc && res.is_some() && (conns[0].weak || conns[0].loss_degraded) && !cand[0].skipped && res != Some(0), "a gated link competes at 2 % and loses");
    kani::cover!(!any_unc && res.is_some() && conns[res.unwrap()].weak, "all constrained: fallback to the full pool");
    core::mem::forget(conns);
}

#[kani::proof]
#[kani::unwind(5)]
#[kani::stub(srtla_core::connection::SrtlaConnection::get_score, abs_score)]
#[kani::stub(srtla_core::selection::enhanced::in_flight_cap_exceeded, cap_exceeded_abs)]
#[kani::stub(srtla_core::selection::enhanced::cc_soft_cap_multiplier, soft_cap_abs)]
fn c11_enhanced_oracle_n2() {
    check_enhanced::<2, false>();
}

#[kani::proof]
#[kani::unwind(6)]
#[kani::stub(srtla_core::connection::SrtlaConnection::get_score, abs_score)]
#[kani::stub(srtla_core::selection::enhanced::in_flight_cap_exceeded, cap_exceeded_abs)]
#[kani::stub(srtla_core::selection::enhanced::cc_soft_cap_multiplier, soft_cap_abs)]
fn c11_enhanced_oracle_n3() {
    check_enhanced::<3, false>();
}
