//! C13 – stall latch: quick to drop, conservative to rejoin, never blind.
use srtla_core::connection::SrtlaConnection;

use crate::util::*;

/// Oracle, restated from the statement with integers:
/// effective staleness window = clamp(4 x smoothed RTT, 1000 ms, ceiling); no RTT -> ceiling;
/// a ceiling below the floor wins.
fn ref_eff(srtt_ms: u64, has_rtt: bool, ceiling: u64) -> u64 {
    if !has_rtt {
        return ceiling;
    }
    let v = srtt_ms.saturating_mul(4);
    let v = if v < 1000 { 1000 } else { v };
    if v > ceiling { ceiling } else { v }
}

/// silence-pull window = max(250, 2 x smoothed RTT), capped at the effective staleness window
fn ref_pull_window(srtt_ms: u64, has_rtt: bool, ceiling: u64) -> u64 {
    let base = if !has_rtt { 250 } else { core::cmp::max(srtt_ms.saturating_mul(2), 250) };
    core::cmp::min(base, ref_eff(srtt_ms, has_rtt, ceiling))
}

fn srtt_of(c: &SrtlaConnection) -> (u64, bool) {
    // harness links carry an integer-valued smoothed RTT (see util::any_conn, Sym.rtt == 1)
    let (x, _, _, _) = c.rtt.kalman_rtt.vh_parts();
    (x as u64, x > 0.0)
}

fn any_ceiling() -> u64 {
    let c: u64 = kani::any();
    kani::assume(c <= T_MAX);
    c
}

#[kani::proof]
fn c13_effective_window() {
    let c = any_conn(1, SYM_INT);
    let ceiling = any_ceiling();
    let (srtt, has) = srtt_of(&c);
    assert!(c.effective_stall_stale_ms(ceiling) == ref_eff(srtt, has, ceiling), "effective window = clamp(4 x srtt, 1000, ceiling)");
    assert!(c.silence_pull_window_ms(ceiling) == ref_pull_window(srtt, has, ceiling), "pull window = min(max(250, 2 x srtt), effective)");
    assert!(c.effective_stall_stale_ms(ceiling) <= ceiling, "never above the configured ceiling");
    kani::cover!(has && ceiling < 1000, "ceiling below the floor");
    kani::cover!(has && srtt * 4 > 1000 && srtt * 4 < ceiling, "RTT-adaptive region");
    kani::cover!(!has, "no RTT baseline");
}

/// Fully symbolic f64 smoothed RTT (fractions, negatives after Kalman overshoot, huge values).
#[kani::proof]
fn c13_effective_window_f64() {
    let c = any_conn(1, Sym { rtt: 2, score_floats: false, leaf_domain: false });
    let ceiling = any_ceiling();
    let (x, _, _, _) = c.rtt.kalman_rtt.vh_parts();
    let e = c.effective_stall_stale_ms(ceiling);
    assert!(e <= ceiling, "f64: never above the ceiling");
    if x <= 0.0 {
        assert!(e == ceiling, "f64: no (or negative) RTT falls back to the ceiling");
    } else {
        assert!(e >= core::cmp::min(1000, ceiling), "f64: never below min(floor, ceiling)");
        if x >= 250.0 && x < 1.0e15 && (x * 4.0) as u64 <= ceiling {
            // within 4 ms of 4 x srtt (the code truncates srtt to whole ms before multiplying)
            let four = (x * 4.0) as u64;
            assert!(e <= four && four - e <= 4, "f64: 4 x srtt in the adaptive region");
        }
    }
    let p = c.silence_pull_window_ms(ceiling);
    assert!(p <= e, "f64: pull window capped at the effective window");
    assert!(p >= core::cmp::min(250, e), "f64: pull window at least min(250, effective)");
    kani::cover!(x < 0.0, "negative Kalman value");
    kani::cover!(x > 0.0 && x < 1.0, "sub-millisecond RTT");
}

/// One call of the latch driver from an arbitrary link state.
#[kani::proof]
fn c13_latch_step() {
    let mut c = any_conn(1, SYM_INT);
    let now = any_now();
    let min_inf: i32 = kani::any();
    let ceiling = any_ceiling();
    let (srtt, has) = srtt_of(&c);
    let eff = ref_eff(srtt, has, ceiling);

    let latched0 = *c.vh_stall_latched_since_ms() != 0;
    let rec0 = *c.vh_stall_recovery_since_ms();
    let ev0 = *c.vh_stall_gate_events();
    let proof = c.last_ack_or_rtt_sample_ms;
    let inf = c.in_flight_packets;
    let pulled = *c.vh_silence_pulled();
    let age = now.saturating_sub(proof);
    let fresh = proof != 0 && age < eff;

    // everything outside the guard-private fields, to show the step is routing-only
    let (conn0, win0, lr0, ls0) = (c.connected, c.window, c.last_received, c.last_sent);

    c.update_stall_latch(now, min_inf, ceiling);

    let latched1 = *c.vh_stall_latched_since_ms() != 0;
    let rec1 = *c.vh_stall_recovery_since_ms();
    let ev1 = *c.vh_stall_gate_events();

    if !latched0 && latched1 {
        assert!(inf >= min_inf || pulled, "latch engages only with the configured backlog or under a silence pull");
        assert!(proof != 0, "a link that never produced delivery proof is never latched");
        assert!(age >= eff, "latch engages only when proof is older than the effective window");
        assert!(ev1 == ev0 + 1, "an engagement is counted once");
        assert!(*c.vh_stall_latched_since_ms() == now, "latch stamped with the decision time");
    } else {
        assert!(ev1 == ev0, "no engagement, no count");
    }
    if proof == 0 {
        assert!(latched1 == latched0, "without any proof the latch state cannot change");
    }
    if latched0 && !latched1 {
        assert!(fresh, "rejoin only while proof is fresh at this decision");
        assert!(rec0 != 0 || eff == 0, "rejoin needs a run already in progress (a single sample never releases)");
        let start = if rec0 != 0 { rec0 } else { now };
        assert!(now.saturating_sub(start) >= eff.saturating_mul(2), "rejoin only after a fresh run of >= 2 x window");
        assert!(rec1 == 0, "release clears the run");
    }
    if latched1 {
        // run bookkeeping: a run exists after the call only if proof was fresh at this call
        if rec1 != 0 {
            assert!(fresh, "a rejoin run is in progress only if proof is fresh at this decision");
            assert!(rec1 == rec0 || (rec0 == 0 && rec1 == now), "a run keeps its start or starts now");
        }
        if !fresh {
            assert!(rec1 == 0, "proof going stale resets the run");
        }
    } else {
        assert!(rec1 == 0 || !latched0 && rec1 == rec0, "no run without a latch (beyond what the pre-state carried)");
    }
    // draining backlog alone never releases
    if latched0 && rec0 == 0 && eff > 0 {
        assert!(latched1, "first fresh sample / drained backlog does not release the latch");
    }
    assert!(c.connected == conn0 && c.window == win0 && c.last_received == lr0 && c.last_sent == ls0 && c.in_flight_packets == inf
        && c.last_ack_or_rtt_sample_ms == proof, "latch update touches guard-private fields only");

    kani::cover!(!latched0 && latched1 && inf < min_inf, "escalation from the silence pull");
    kani::cover!(!latched0 && latched1 && inf >= min_inf, "engaged on backlog");
    kani::cover!(latched0 && !latched1, "released after dwell");
    kani::cover!(latched0 && latched1 && rec0 != 0 && rec1 == 0, "lapse resets the run");
    kani::cover!(latched0 && latched1 && rec0 == 0 && rec1 == now, "run starts");
    kani::cover!(ceiling < 1000 && !latched0 && latched1, "engaged with a ceiling below the floor");
}

/// One call of the silence-pull driver from an arbitrary link state.
#[kani::proof]
fn c13_pull_step() {
    let mut c = any_conn(1, SYM_INT);
    let now = any_now();
    let min_inf: i32 = kani::any();
    let ceiling = any_ceiling();
    let (srtt, has) = srtt_of(&c);
    let win = ref_pull_window(srtt, has, ceiling);
    let pulled0 = *c.vh_silence_pulled();
    let n0 = *c.vh_silence_pulls();
    let heard_recently = match c.last_received {
        Some(lr) => now.saturating_sub(lr) < win,
        None => false,
    };
    let connected = c.connected;
    let inf = c.in_flight_packets;
    let lr = c.last_received;

    c.vh_update_silence_pull(now, min_inf, ceiling);

    let pulled1 = *c.vh_silence_pulled();
    if pulled0 && !pulled1 {
        assert!(heard_recently || !connected, "pull releases only when the link is heard from again or disconnects");
    }
    if !pulled0 && pulled1 {
        assert!(connected && inf >= min_inf, "pull engages only on a connected, loaded link");
        assert!(lr.is_some() && !heard_recently, "pull engages only after total silence for the pull window");
        assert!(*c.vh_silence_pulls() == n0 + 1, "rising edge counted once");
    } else {
        assert!(*c.vh_silence_pulls() == n0, "no rising edge, no count");
    }
    // a drained backlog does not release a mute link
    if pulled0 && connected && !heard_recently {
        assert!(pulled1, "drained-but-mute link stays pulled");
    }
    kani::cover!(pulled0 && !pulled1 && connected, "released because heard");
    kani::cover!(pulled0 && !pulled1 && !connected, "released because disconnected");
    kani::cover!(!pulled0 && pulled1, "engaged");
    kani::cover!(pulled0 && pulled1 && inf < min_inf, "held although drained");
}

/// Temporal statement as a 3-decision trace with an independent monitor: between decisions the
/// link state changes arbitrarily (proof stamps, backlog, inbound bytes, RTT), the clock is
/// non-decreasing.  Monitor: start of the current uninterrupted run of decisions at which proof
/// was fresh.  A release must come with a monitored run of at least 2 x the window.
#[kani::proof]
#[kani::unwind(4)]
fn c13_latch_trace_3() {
    let mut c = any_conn(1, SYM_INT);
    // a run cannot pre-date the trace: start with no rejoin run in progress
    *c.vh_stall_recovery_since_ms_mut() = 0;
    let min_inf: i32 = kani::any();
    let ceiling = any_ceiling();
    let mut now = any_now();
    let mut run_start: Option<u64> = None; // monitor
    let mut i = 0;
    while i < 3 {
        // environment step
        let dt: u32 = kani::any();
        now += dt as u64;
        if kani::any() {
            let p = any_time();
            kani::assume(p <= now);
            c.last_ack_or_rtt_sample_ms = p; // an earned ACK / keepalive echo some time ago or just now
        }
        if kani::any() {
            let f: i32 = kani::any();
            kani::assume(f >= 0);
            c.in_flight_packets = f;
        }
        if kani::any() {
            *c.vh_silence_pulled_mut() = kani::any();
        }
        if kani::any() {
            let ms: u16 = kani::any();
            kani::assume(ms <= 5000);
            c.rtt.kalman_rtt = srtla_core::kalman::KalmanFilter::vh_from_parts(ms as f64, 0.0, [0.0; 4], true);
        }
        let (srtt, has) = srtt_of(&c);
        let eff = ref_eff(srtt, has, ceiling);
        let proof = c.last_ack_or_rtt_sample_ms;
        let fresh = proof != 0 && now.saturating_sub(proof) < eff;
        let latched0 = *c.vh_stall_latched_since_ms() != 0;

        c.update_stall_latch(now, min_inf, ceiling);

        let latched1 = *c.vh_stall_latched_since_ms() != 0;
        // monitor update: runs are only counted on a latched link
        if latched0 && fresh {
            if run_start.is_none() {
                run_start = Some(now);
            }
        } else {
            run_start = None;
        }
        if latched0 && !latched1 {
            assert!(run_start.is_some(), "trace: release only inside an uninterrupted fresh run");
            assert!(now - run_start.unwrap() >= eff.saturating_mul(2), "trace: fresh at every decision for >= 2 x window");
        }
        if !latched1 {
            run_start = None;
        }
        i += 1;
    }
    kani::cover!(*c.vh_stall_latched_since_ms() == 0 && run_start.is_none() && i == 3, "trace completes");
}

#[kani::proof]
#[kani::unwind(4)]
fn c13_latch_trace_release_reachable() {
    // reachability twin for the trace harness: a release inside 3 decisions IS possible
    let mut c = any_conn(1, SYM_INT);
    *c.vh_stall_recovery_since_ms_mut() = 0;
    kani::assume(*c.vh_stall_latched_since_ms() != 0);
    let ceiling = any_ceiling();
    let mut now = any_now();
    let mut i = 0;
    let mut released = false;
    while i < 3 {
        let dt: u32 = kani::any();
        now += dt as u64;
        if kani::any() {
            let p = any_time();
            kani::assume(p <= now);
            c.last_ack_or_rtt_sample_ms = p;
        }
        let l0 = *c.vh_stall_latched_since_ms() != 0;
        c.update_stall_latch(now, kani::any(), ceiling);
        if l0 && *c.vh_stall_latched_since_ms() == 0 {
            released = true;
        }
        i += 1;
    }
    kani::cover!(released, "a release within three decisions is reachable");
}

/// Delivery proof is stamped only by an earned SRTLA ACK (core side; the keepalive echo site is
/// in the shell harness).  Every other accounting event leaves the stamp alone.
#[kani::proof]
#[kani::unwind(6)]
#[kani::stub(alloc::fmt::format, no_format)]
#[kani::stub(srtla_core::connection::RttTracker::update_estimate, no_rtt_update)]
fn c13_proof_stamp_sites() {
    let mut c = any_conn(1, SYM_INT);
    let s1: i32 = kani::any();
    let held: bool = kani::any();
    if held {
        c.vh_packet_log_mut().insert(s1, any_time());
    }
    c.in_flight_packets = held as i32;
    let p0 = c.last_ack_or_rtt_sample_ms;
    let now = any_now();
    let seq: i32 = kani::any();
    let ev: u8 = kani::any();
    kani::assume(ev < 7);
    match ev {
        0 => {
            let found = c.handle_srtla_ack_specific(seq, kani::any(), now);
            if found {
                assert!(held && seq == s1, "earned only if the link held the packet");
                assert!(c.last_ack_or_rtt_sample_ms == now, "earned ACK stamps delivery proof");
            } else {
                assert!(c.last_ack_or_rtt_sample_ms == p0, "unearned ACK is not delivery proof");
            }
        }
        1 => {
            c.handle_srt_ack(seq, now);
            assert!(c.last_ack_or_rtt_sample_ms == p0, "cumulative SRT ACK is not delivery proof");
        }
        2 => {
            c.handle_nak(seq, now);
            assert!(c.last_ack_or_rtt_sample_ms == p0, "NAK is not delivery proof");
        }
        3 => {
            c.handle_srtla_ack_global();
            assert!(c.last_ack_or_rtt_sample_ms == p0, "global ACK increment is not delivery proof");
        }
        4 => {
            c.register_packet(seq, now);
            assert!(c.last_ack_or_rtt_sample_ms == p0, "sending is not delivery proof");
        }
        5 => {
            let _ = c.keepalive_packet(now);
            assert!(c.last_ack_or_rtt_sample_ms == p0, "sending a keepalive is not delivery proof");
        }
        _ => {
            c.perform_window_recovery(now);
            c.update_phase(now);
            assert!(c.last_ack_or_rtt_sample_ms == p0, "housekeeping steps are not delivery proof");
        }
    }
    kani::cover!(ev == 0 && c.last_ack_or_rtt_sample_ms == now && now != p0, "earned ACK stamped");
}

pub fn no_rtt_update(_: &mut srtla_core::connection::RttTracker, _: u64, _: u64) {}
