//! C06 – congestion windows stay in range and move in the right direction.
//!
//! One-step inductive harnesses: from an ARBITRARY congestion state (every field a solver
//! variable, window anywhere in [1000, 60000], in-flight anywhere in 0..=i32::MAX) each real
//! mutator is run once and the range / direction / fast-recovery rules are asserted.  Because the
//! pre-state is unconstrained apart from the range invariant, and every harness re-establishes
//! that invariant, the facts hold along histories of any length.
use srtla_core::connection::{CongestionControl, LinkPhase, SrtlaConnection};

use crate::util::*;

const WMIN: i32 = 1000;
const WMAX: i32 = 60000;
const WDEF: i32 = 20000;

#[kani::proof]
#[kani::stub(alloc::fmt::format, no_format)]
fn c06_nak_step() {
    let mut cc = any_cc();
    let mut w = any_window();
    let w0 = w;
    let fr0 = cc.fast_recovery_mode;
    let now: u64 = kani::any();
    cc.handle_nak(&mut w, kani::any(), "", now);
    assert!(w >= WMIN && w <= WMAX, "window in range after NAK");
    assert!(w <= w0, "NAK never increases the window");
    assert!(w == core::cmp::max(w0 - 100, WMIN), "NAK: -100 floored at 1000");
    if !fr0 && cc.fast_recovery_mode {
        assert!(w <= 2000, "fast recovery entered only at window <= 2000");
    }
    if fr0 {
        assert!(cc.fast_recovery_mode, "a NAK never leaves fast recovery");
    }
    kani::cover!(!fr0 && cc.fast_recovery_mode, "fast recovery entered");
    kani::cover!(w == WMIN && w0 == WMIN, "NAK at the floor");
}

fn any_in_flight() -> i32 {
    let f: i32 = kani::any();
    kani::assume(f >= 0);
    f
}

#[kani::proof]
fn c06_ack_classic_step() {
    let mut cc = any_cc();
    let cc0 = cc.clone();
    let mut w = any_window();
    let w0 = w;
    let inf = any_in_flight();
    cc.handle_srtla_ack_specific_classic(&mut w, inf, kani::any(), "");
    assert!(w >= WMIN && w <= WMAX, "window in range after classic ACK");
    assert!(w >= w0, "an ACK never decreases the window");
    // reference rule: +29 iff in_flight*1000 > window (in unbounded integers), capped at 60000
    let grow = (inf as i64) * 1000 > w0 as i64;
    let expect = if grow { core::cmp::min(w0 + 29, WMAX) } else { w0 };
    assert!(w == expect, "classic ACK: +29 iff in_flight x 1000 > window, capped");
    assert!(cc.fast_recovery_mode == cc0.fast_recovery_mode, "classic ACK leaves fast-recovery flag alone");
    kani::cover!(grow && w0 + 29 > WMAX, "classic ACK growth capped");
    kani::cover!(inf > i32::MAX / 1000, "in-flight large enough to overflow a naive multiply");
}

#[kani::proof]
fn c06_ack_enhanced_step() {
    let mut cc = any_cc();
    let mut w = any_window();
    let w0 = w;
    let fr0 = cc.fast_recovery_mode;
    let inf = any_in_flight();
    cc.handle_srtla_ack_enhanced(&mut w, inf, "", kani::any());
    assert!(w >= WMIN && w <= WMAX, "window in range after enhanced ACK");
    assert!(w >= w0, "an ACK never decreases the window");
    let grow = (inf as i64) * 1000 > w0 as i64;
    let expect = if grow { core::cmp::min(w0 + 29, WMAX) } else { w0 };
    assert!(w == expect, "enhanced ACK: same growth rule as classic");
    if fr0 && !cc.fast_recovery_mode {
        assert!(w >= 12000, "fast recovery left only at window >= 12000");
    }
    if !fr0 {
        assert!(!cc.fast_recovery_mode, "an ACK never enters fast recovery");
    }
    kani::cover!(fr0 && !cc.fast_recovery_mode, "fast recovery left by ACK");
    kani::cover!(fr0 && cc.fast_recovery_mode && w > w0, "still in fast recovery while growing");
}

#[kani::proof]
#[kani::stub(alloc::fmt::format, no_format)]
fn c06_recovery_step() {
    let mut cc = any_cc();
    let mut w = any_window();
    let w0 = w;
    let fr0 = cc.fast_recovery_mode;
    let connected: bool = kani::any();
    let vel: f64 = kani::any(); // any bit pattern: NaN, +-inf, subnormals included
    let now: u64 = kani::any();
    cc.perform_window_recovery(&mut w, connected, vel, "", now);
    assert!(w >= WMIN && w <= WMAX, "window in range after time-based recovery");
    assert!(w >= w0, "time-based recovery never decreases the window");
    assert!(w - w0 <= 120, "one recovery tick adds at most 2 x 30 x 2");
    if !connected {
        assert!(w == w0, "no recovery on a disconnected link");
    }
    if fr0 && !cc.fast_recovery_mode {
        assert!(w >= 12000, "fast recovery left only at window >= 12000");
    }
    if !fr0 {
        assert!(!cc.fast_recovery_mode, "recovery never enters fast recovery");
    }
    kani::cover!(w > w0 && vel > 2.0, "velocity-gated increment");
    kani::cover!(w == WMAX && w0 < WMAX, "recovery capped at the maximum");
    kani::cover!(fr0 && !cc.fast_recovery_mode, "fast recovery left by recovery tick");
    kani::cover!(vel != vel && w > w0, "NaN velocity");
}

/// Through the connection API: earned SRTLA ACK / NAK / global increment on a link whose log
/// holds the sequence number (or not), both modes.
#[kani::proof]
#[kani::unwind(6)]
#[kani::stub(alloc::fmt::format, no_format)]
fn c06_conn_events_step() {
    let mut c = any_conn(1, SYM_INT);
    // up to two outstanding packets
    let s1: i32 = kani::any();
    let s2: i32 = kani::any();
    let n: u8 = kani::any();
    kani::assume(n <= 2 && s1 != s2);
    if n >= 1 {
        c.vh_packet_log_mut().insert(s1, kani::any());
    }
    if n >= 2 {
        c.vh_packet_log_mut().insert(s2, kani::any());
    }
    c.in_flight_packets = n as i32;
    let w0 = c.window;
    let fr0 = c.vh_congestion().fast_recovery_mode;
    let seq: i32 = kani::any();
    let now = any_time();
    let ev: u8 = kani::any();
    kani::assume(ev < 4);
    let mut earned = false;
    match ev {
        0 => {
            let found = c.handle_srtla_ack_specific(seq, true, now);
            earned = found;
            assert!(c.window >= w0 && c.window <= WMAX, "classic earned ACK: in range, not decreasing");
            assert!(found == ((n >= 1 && seq == s1) || (n >= 2 && seq == s2)), "ACK earned iff the link held the packet");
            if !found {
                assert!(c.window == w0, "unearned ACK leaves the window alone");
            }
        }
        1 => {
            let found = c.handle_srtla_ack_specific(seq, false, now);
            assert!(c.window >= w0 && c.window <= WMAX, "enhanced earned ACK: in range, not decreasing");
            if !found {
                assert!(c.window == w0 && c.vh_congestion().fast_recovery_mode == fr0, "unearned ACK changes nothing");
            }
            if fr0 && !c.vh_congestion().fast_recovery_mode {
                assert!(c.window >= 12000, "fast recovery left only at >= 12000 (connection API)");
            }
        }
        2 => {
            let found = c.handle_nak(seq, now);
            assert!(c.window <= w0 && c.window >= WMIN, "NAK: in range, not increasing");
            if found {
                assert!(c.window == core::cmp::max(w0 - 100, WMIN), "charged NAK: -100 floored");
            } else {
                assert!(c.window == w0 && c.vh_congestion().fast_recovery_mode == fr0, "uncharged NAK changes nothing");
            }
            if !fr0 && c.vh_congestion().fast_recovery_mode {
                assert!(c.window <= 2000, "fast recovery entered only at <= 2000 (connection API)");
            }
        }
        _ => {
            let heard = c.last_received.is_some();
            let conn = c.connected;
            c.handle_srtla_ack_global();
            let expect = if conn && heard { core::cmp::min(w0 + 1, WMAX) } else { w0 };
            assert!(c.window == expect, "global +1 iff connected and ever heard, capped");
            assert!(c.vh_congestion().fast_recovery_mode == fr0, "global increment leaves fast-recovery flag alone");
        }
    }
    assert!(c.window >= WMIN && c.window <= WMAX, "window in range after any connection event");
    kani::cover!(ev == 0 && earned, "classic earned ACK (growth itself needs in-flight > window/1000: see c06_ack_classic_step)");
    kani::cover!(ev == 2 && c.window < w0, "charged NAK");
    kani::cover!(ev == 3 && c.window == WMAX && w0 == WMAX, "global increment at the cap");
}

#[kani::proof]
#[kani::unwind(6)]
fn c06_resets() {
    // initial value
    let fresh = SrtlaConnection::new_registering(kani::any(), String::new(), std::net::IpAddr::V4(std::net::Ipv4Addr::LOCALHOST), any_time());
    assert!(fresh.window == WDEF, "a new link starts at 20000");
    assert!(!fresh.vh_congestion().fast_recovery_mode, "a new link is not in fast recovery");

    let mut c = any_conn(1, SYM_INT);
    let s1: i32 = kani::any();
    if kani::any() {
        c.vh_packet_log_mut().insert(s1, kani::any());
    }
    let which: bool = kani::any();
    if which {
        c.mark_for_recovery();
    } else {
        c.reset_for_reconnect(any_time());
        assert!(!c.vh_congestion().fast_recovery_mode, "reconnect reset leaves fast recovery");
    }
    assert!(c.window == WDEF, "teardown returns the window to 20000");
    assert!(c.in_flight_packets == 0 && c.vh_packet_log().is_empty(), "teardown clears in-flight");
    assert!(!c.connected && matches!(c.vh_phase(), LinkPhase::Registering), "teardown leaves the link registering");
    kani::cover!(which, "mark_for_recovery");
    kani::cover!(!which, "reset_for_reconnect");
}

/// Bounded symbolic history (thorough tier): 3 events from an arbitrary state, checking the
/// fast-recovery hysteresis as a trace property (belt and braces over the one-step harnesses).
#[kani::proof]
#[kani::unwind(4)]
#[kani::stub(alloc::fmt::format, no_format)]
fn c06_history_3() {
    let mut cc = any_cc();
    let mut w = any_window();
    let mut now = any_time();
    let mut i = 0;
    while i < 3 {
        let w0 = w;
        let fr0 = cc.fast_recovery_mode;
        let dt: u32 = kani::any();
        now += dt as u64;
        let ev: u8 = kani::any();
        kani::assume(ev < 4);
        let mut reset = false;
        match ev {
            0 => {
                cc.handle_nak(&mut w, kani::any(), "", now);
                assert!(w <= w0, "history: NAK never increases");
            }
            1 => {
                cc.handle_srtla_ack_enhanced(&mut w, any_in_flight(), "", now);
                assert!(w >= w0, "history: ACK never decreases");
            }
            2 => {
                cc.perform_window_recovery(&mut w, kani::any(), kani::any(), "", now);
                assert!(w >= w0, "history: recovery never decreases");
            }
            _ => {
                cc.reset();
                w = WDEF;
                reset = true;
            }
        }
        assert!(w >= WMIN && w <= WMAX, "history: window in range");
        if !fr0 && cc.fast_recovery_mode {
            assert!(w <= 2000, "history: fast recovery entered only at <= 2000");
        }
        if fr0 && !cc.fast_recovery_mode {
            assert!(w >= 12000 || reset, "history: fast recovery left only at >= 12000 or on reset");
        }
        i += 1;
    }
    kani::cover!(w == WMAX, "history reaches the cap");
}
