//! C06 – congestion windows stay in range and move in the right direction.
use srtla_core::connection::CongestionControl;

use crate::util::no_format;

const WMIN: i32 = 1000;
const WMAX: i32 = 60000;

fn any_cc() -> CongestionControl {
    CongestionControl {
        nak_count: kani::any(),
        last_nak_time_ms: kani::any(),
        last_window_increase_ms: kani::any(),
        consecutive_acks_without_nak: kani::any(),
        fast_recovery_mode: kani::any(),
        fast_recovery_start_ms: kani::any(),
        nak_burst_count: kani::any(),
        nak_burst_start_time_ms: kani::any(),
    }
}

fn any_window() -> i32 {
    let w: i32 = kani::any();
    kani::assume(w >= WMIN && w <= WMAX);
    w
}

#[kani::proof]
#[kani::stub(alloc::fmt::format, no_format)]
fn c06_nak_step() {
    let mut cc = any_cc();
    let mut w = any_window();
    let w0 = w;
    let fr0 = cc.fast_recovery_mode;
    let now: u64 = kani::any();
    cc.handle_nak(&mut w, kani::any(), "", now);
    assert!(w >= WMIN && w <= WMAX, "window in range after NAK");
    assert!(w <= w0, "NAK never increases the window");
    assert!(w == core::cmp::max(w0 - 100, WMIN), "NAK: -100 floored at 1000");
    if !fr0 && cc.fast_recovery_mode {
        assert!(w <= 2000, "fast recovery entered only at window <= 2000");
    }
    if fr0 {
        assert!(cc.fast_recovery_mode, "a NAK never leaves fast recovery");
    }
    kani::cover!(!fr0 && cc.fast_recovery_mode, "fast recovery entered");
    kani::cover!(w == WMIN && w0 == WMIN, "NAK at the floor");
}
