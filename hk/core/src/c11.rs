//! C11 – enhanced selection is stable, hysteretic and respects its gates; score factors stay in
//! their documented ranges.
use srtla_core::config_snapshot::ConfigSnapshot;
use srtla_core::connection::{LinkPhase, SrtlaConnection};
use srtla_core::mode::SchedulingMode;
use srtla_core::selection::enhanced::{in_flight_cap_exceeded, in_flight_cap_packets};
use srtla_core::selection::{calculate_quality_multiplier, select_connection_idx};

use crate::c03::{cap_exceeded_abs, soft_cap_abs};
use crate::c10::abs_score;
use crate::util::*;

/// Contract stand-in for `f64::exp` on the argument range the code uses (x <= 0): any value in
/// (0, 1].  CBMC has no bit-precise exp; the mathematical contract is what the ranges rely on.
pub fn exp_contract(x: f64) -> f64 {
    let r: f64 = kani::any();
    if x <= 0.0 {
        kani::assume(r > 0.0 && r <= 1.0);
    } else {
        kani::assume(r >= 1.0);
    }
    r
}

/// Quality multiplier is finite and within [0.35, 1.1 x 1.03] for every link state and clock.
#[kani::proof]
#[kani::stub(f64::exp, exp_contract)]
fn c11_quality_multiplier_range() {
    let c = any_conn(1, Sym { rtt: 2, score_floats: false, leaf_domain: false });
    let now = any_time();
    let q = calculate_quality_multiplier(&c, now);
    assert!(q.is_finite(), "quality multiplier is finite");
    assert!(q >= 0.35 && q <= 1.1 * 1.03, "quality multiplier within [0.35, 1.1 x 1.03]");
    kani::cover!(q < 0.36, "burst + fresh NAK: the minimum");
    kani::cover!(q > 1.13, "perfect link with low RTT: the maximum");
    core::mem::forget(c);
}

/// BDP in-flight cap: at least one packet, defined for every target / RTT (NaN, inf, <= 0 incl.).
#[kani::proof]
fn c11_in_flight_cap_range() {
    let target: u64 = kani::any();
    let rtt: f64 = kani::any();
    match in_flight_cap_packets(target, rtt) {
        None => assert!(target == 0, "no cap only without a rate signal"),
        Some(cap) => {
            assert!(target != 0, "a cap needs a rate signal");
            assert!(cap >= 1, "the cap never drops below one packet");
        }
    }
}

/// The tables used in place of the two f64 leaves of the enhanced selector are EXACT on the leaf
/// domain: the real `in_flight_cap_exceeded` and the real (private, hook-exported)
/// `cc_soft_cap_multiplier` equal them for every link of the domain (any in-flight count).  Also
/// decides the soft-cap factor's documented range [0.1, 1] on the domain.
#[kani::proof]
fn c11_leaf_tables_exact() {
    let c = any_conn(1, SYM_LEAF);
    let real_cap = in_flight_cap_exceeded(&c);
    assert!(real_cap == leaf_tables::cap_exceeded(&c), "BDP in-flight cap: table == real function on the leaf domain");
    let real_soft = srtla_core::selection::enhanced::vh_cc_soft_cap_multiplier(&c);
    assert!(real_soft == leaf_tables::soft_cap(&c), "CC soft cap: table == real function on the leaf domain");
    assert!(real_soft >= 0.1 && real_soft <= 1.0, "soft-cap factor within [0.1, 1]");
    kani::cover!(real_cap && c.cc_target_bps == leaf_tables::T_SMALL, "capped at one packet");
    kani::cover!(real_cap && c.cc_target_bps == leaf_tables::T_BIG, "capped at the large BDP");
    kani::cover!(real_soft == 0.1, "saturated link: floor");
    kani::cover!(real_soft == 0.5, "half loaded");
    core::mem::forget(c);
}

/// Soft-cap factor range for EVERY input (not only the leaf domain).
#[kani::proof]
fn c11_soft_cap_range() {
    let c = any_conn(1, SYM_FULL);
    let m = srtla_core::selection::enhanced::vh_cc_soft_cap_multiplier(&c);
    assert!(m >= 0.1 && m <= 1.0, "soft-cap factor within [0.1, 1] for every target / measured rate");
    core::mem::forget(c);
}
