//! C14 – keepalives flow on every live uplink and RTT comes only from echoes (core part).
use srtla_core::connection::{RttTracker, SrtlaConnection};
use srtla_core::kalman::KalmanFilter;

use crate::util::*;

fn be32(b: &[u8], o: usize) -> u32 {
    ((b[o] as u32) << 24) | ((b[o + 1] as u32) << 16) | ((b[o + 2] as u32) << 8) | b[o + 3] as u32
}
fn be64(b: &[u8], o: usize) -> u64 {
    ((be32(b, o) as u64) << 32) | be32(b, o + 4) as u64
}

/// Every keepalive is a 38-byte extended frame: bytes 0..10 a standard keepalive carrying the send
/// time, telemetry = the link's current window / in-flight / loss count / rate.
#[kani::proof]
#[kani::unwind(9)]
fn c14_keepalive_frame() {
    let mut c = any_conn(kani::any(), SYM_FULL);
    c.rtt.waiting_for_keepalive_response = kani::any();
    c.rtt.last_rtt_measurement_ms = any_time();
    c.rtt.last_keepalive_sent_ms = any_time();
    let now = any_now();
    let (window, inflight, naks) = (c.window, c.in_flight_packets, c.vh_congestion().nak_count);
    let bps = c.vh_bitrate().current_bitrate_bps;
    let id = c.conn_id;
    let waiting0 = c.rtt.waiting_for_keepalive_response;
    let last_meas = c.rtt.last_rtt_measurement_ms;
    let sent0 = c.rtt.last_keepalive_sent_ms;
    let (srtt, _, _, _) = c.rtt.kalman_rtt.vh_parts();

    let p = c.keepalive_packet(now);

    assert!(p.len() == 38, "extended keepalive is 38 bytes");
    assert!(p[0] == 0x90 && p[1] == 0x00, "type 0x9000");
    assert!(be64(&p, 2) == now, "bytes 2..10 carry the send timestamp");
    assert!(p[10] == 0xc0 && p[11] == 0x1f && p[12] == 0 && p[13] == 1, "magic + version");
    assert!(be32(&p, 14) == id as u32, "connection id (low 32 bits)");
    assert!(be32(&p, 18) == window as u32, "telemetry: current window");
    assert!(be32(&p, 22) == inflight as u32, "telemetry: current in-flight");
    assert!(be32(&p, 26) == srtt as u32, "telemetry: smoothed RTT in ms");
    assert!(be32(&p, 30) == naks as u32, "telemetry: loss count");
    assert!(be32(&p, 34) == (bps / 8.0) as u32, "telemetry: rate in bytes per second");
    // through the real decoder as well
    let info = srtla_protocol::extract_keepalive_conn_info(&p).unwrap();
    assert!(info.window == window && info.in_flight == inflight && info.nak_count == naks as u32, "decodes back");
    assert!(srtla_protocol::extract_keepalive_timestamp(&p) == Some(now), "timestamp decodes back");
    // bookkeeping
    assert!(c.last_sent == Some(now) && *c.vh_last_keepalive_sent() == Some(now), "cadence clock stamped");
    let arm = !waiting0 && (last_meas == 0 || now.saturating_sub(last_meas) > 3000);
    if arm {
        assert!(c.rtt.waiting_for_keepalive_response && c.rtt.last_keepalive_sent_ms == now, "RTT probe armed");
    } else {
        assert!(c.rtt.waiting_for_keepalive_response == waiting0 && c.rtt.last_keepalive_sent_ms == sent0, "no new probe while one is outstanding or recent");
    }
    kani::cover!(arm, "probe armed");
    kani::cover!(!arm && waiting0, "probe already outstanding");
    kani::cover!(bps > 8.0e9, "rate above u32 range saturates");
    core::mem::forget(c);
}

#[kani::proof]
fn c14_need_predicates() {
    let mut c = any_conn(1, SYM_INT);
    c.rtt.waiting_for_keepalive_response = kani::any();
    c.rtt.last_rtt_measurement_ms = any_time();
    let now = any_now();
    let due = match *c.vh_last_keepalive_sent() {
        None => true,
        Some(t) => now.saturating_sub(t) >= 1000,
    };
    assert!(c.needs_keepalive(now) == (c.connected && due), "keepalive due iff connected and >= 1 s since the last one (or never)");
    let est = c.reconnection.connection_established_ms != 0;
    let want = est && c.connected && !c.rtt.waiting_for_keepalive_response
        && (c.rtt.last_rtt_measurement_ms == 0 || now.saturating_sub(c.rtt.last_rtt_measurement_ms) > 3000);
    assert!(c.needs_rtt_measurement(now) == want, "RTT probe due iff established, connected, none outstanding and last sample > 3 s old");
    kani::cover!(c.needs_keepalive(now) && c.needs_rtt_measurement(now), "both due");
    core::mem::forget(c);
}

/// The keepalive statements of one housekeeping pass over a connected, not timed-out link, in the
/// order of src/sender/housekeeping.rs (`if needs_keepalive {..}` then `if needs_rtt_measurement {..}`);
/// the socket send between them is I/O and outside the claim.  Returns whether a frame was built.
fn tick_keepalives(c: &mut SrtlaConnection, now: u64) -> bool {
    let mut sent = false;
    if c.needs_keepalive(now) {
        let _ = c.keepalive_packet(now);
        sent = true;
    }
    if c.needs_rtt_measurement(now) {
        let _ = c.keepalive_packet(now);
        sent = true;
    }
    sent
}

/// Cadence, per-tick part: two consecutive housekeeping passes at most one period (1000 ms) apart
/// over a connected link, with arbitrary send activity in between.  Inductive invariant after a
/// pass at `now`: the cadence clock is at most `now` and less than 1 s old; hence the gap between
/// two consecutive keepalives is below two periods.  The period itself (tokio interval) and
/// timer jitter are outside the claim.
#[kani::proof]
fn c14_cadence_ticks() {
    const P: u64 = 1000; // HOUSEKEEPING_INTERVAL_MS
    let mut c = any_conn(1, SYM_INT);
    c.rtt.waiting_for_keepalive_response = kani::any();
    c.rtt.last_rtt_measurement_ms = any_time();
    kani::assume(c.connected);
    let t0 = any_now();
    // the cadence clock is only ever stamped with the clock value (c14_keepalive_frame)
    if let Some(l) = *c.vh_last_keepalive_sent() {
        kani::assume(l <= t0);
    }
    let _ = tick_keepalives(&mut c, t0);
    let l0 = (*c.vh_last_keepalive_sent()).expect("a connected link has sent a keepalive after its first pass");
    assert!(l0 <= t0 && t0 - l0 < P, "after a pass the last keepalive is less than one period old");
    // arbitrary data / handshake sends between the passes do not feed the cadence clock
    let d: u64 = kani::any();
    kani::assume(d >= 1 && d <= P);
    let t1 = t0 + d;
    if kani::any() {
        let ts: u64 = kani::any();
        kani::assume(ts >= t0 && ts <= t1);
        c.note_sent(ts);
    }
    let sent = tick_keepalives(&mut c, t1);
    let l1 = (*c.vh_last_keepalive_sent()).expect("cadence clock stays set");
    assert!(l1 == l0 || (sent && l1 == t1), "the cadence clock moves only by sending a keepalive now");
    assert!(t1 - l1 < P, "invariant re-established: last keepalive less than one period old");
    assert!(t1 - l0 < 2 * P, "gap between consecutive keepalives is below two housekeeping periods");
    kani::cover!(sent && l0 != t0, "second pass sends, first did not");
    kani::cover!(!sent, "second pass does not send");
    core::mem::forget(c);
}

/// Stub standing in for the sample sink: records the sample so the harness can observe it.
pub fn record_sample(t: &mut RttTracker, rtt: u64, now: u64) {
    t.last_rtt_measurement_ms = now;
    t.estimated_rtt_ms = rtt as f64;
    t.prev_rtt_ms = -1.0; // marker: a sample was taken
}

/// Echo filter: a sample is taken only from an echo received while a probe is outstanding, only
/// if 0 < RTT <= 10 s; duplicates, truncated frames, future / zero timestamps are ignored.
#[kani::proof]
#[kani::unwind(9)]
#[kani::stub(srtla_core::connection::RttTracker::update_estimate, record_sample)]
fn c14_echo_filter() {
    let mut t = RttTracker::default();
    t.waiting_for_keepalive_response = kani::any();
    t.last_keepalive_sent_ms = any_time();
    t.last_rtt_measurement_ms = any_time();
    t.prev_rtt_ms = 0.0;
    let waiting0 = t.waiting_for_keepalive_response;
    let meas0 = t.last_rtt_measurement_ms;
    let buf: [u8; 16] = kani::any();
    let len: usize = kani::any();
    kani::assume(len <= 16);
    let now = any_now();
    let r = t.handle_keepalive_response(&buf[..len], "", now);

    let is_ka = len >= 10 && buf[0] == 0x90 && buf[1] == 0x00;
    let ts = be64(&buf, 2);
    let rtt = now.saturating_sub(ts);
    let ok = waiting0 && is_ka && rtt > 0 && rtt <= 10_000;
    assert!(r.is_some() == ok, "sample iff probe outstanding, well-formed echo and 0 < RTT <= 10 s");
    if ok {
        assert!(r == Some(rtt), "sample value = now - echoed timestamp");
        assert!(t.prev_rtt_ms == -1.0 && t.estimated_rtt_ms == rtt as f64 && t.last_rtt_measurement_ms == now, "the estimator received exactly that sample");
    } else {
        assert!(t.prev_rtt_ms == 0.0 && t.last_rtt_measurement_ms == meas0, "no sample reaches the estimator");
    }
    assert!(!t.waiting_for_keepalive_response, "probe no longer outstanding after any echo (or none was)");
    // duplicate echo right after: ignored
    let r2 = t.handle_keepalive_response(&buf[..len], "", now);
    assert!(r2.is_none(), "a duplicate echo is ignored");
    kani::cover!(ok && rtt == 10_000, "sample at the 10 s limit");
    kani::cover!(waiting0 && is_ka && ts > now, "future timestamp rejected");
    kani::cover!(waiting0 && is_ka && rtt == 10_001, "late echo rejected");
    kani::cover!(waiting0 && len == 9, "truncated echo");
    kani::cover!(!waiting0 && is_ka && rtt > 0 && rtt <= 10_000, "unsolicited echo ignored");
}

/// One real estimator update (real Kalman filter, real window bookkeeping, windows initially
/// holding 0..1 samples) never makes the smoothed RTT negative or non-finite.
#[kani::proof]
#[kani::unwind(6)]
fn c14_smooth_rtt_sane() {
    let mut c = any_conn(1, SYM_INT);
    // bounded finite filter state (stated bound): |x|,|v| <= 1e6, covariances in [0, 1e6]
    let x: f64 = kani::any();
    let v: f64 = kani::any();
    kani::assume(x >= -1.0e6 && x <= 1.0e6 && v >= -1.0e6 && v <= 1.0e6);
    let p: [f64; 4] = kani::any();
    kani::assume(p[0] >= 0.0 && p[0] <= 1.0e6 && p[1] >= 0.0 && p[1] <= 1.0e6 && p[2] >= 0.0 && p[2] <= 1.0e6 && p[3] >= 0.0 && p[3] <= 1.0e6);
    c.rtt.kalman_rtt = KalmanFilter::vh_from_parts(x, v, p, kani::any());
    let rtt: u64 = kani::any();
    kani::assume(rtt >= 1 && rtt <= 10_000);
    c.rtt.kalman_rtt.update(rtt as f64);
    let s = c.get_smooth_rtt_ms();
    assert!(s >= 0.0, "smoothed RTT is never negative");
    assert!(s.is_finite(), "smoothed RTT is finite");
    let (x1, _, _, _) = c.rtt.kalman_rtt.vh_parts();
    kani::cover!(x1 < 0.0, "Kalman overshoot below zero is clamped");
    core::mem::forget(c);
}
