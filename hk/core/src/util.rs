//! Shared helpers for the core harnesses: arbitrary-state builders, stubs, oracles.
use std::net::{IpAddr, Ipv4Addr};

use srtla_core::config_snapshot::ConfigSnapshot;
use srtla_core::connection::{CachedQuality, CongestionControl, LinkPhase, SrtlaConnection};
use srtla_core::kalman::KalmanFilter;
use srtla_core::mode::SchedulingMode;

/// Stub for `alloc::fmt::format` (log / warn message construction is not the
/// subject of any property; real `format!` costs minutes of symbolic execution).
pub fn no_format(_: core::fmt::Arguments<'_>) -> String {
    String::new()
}

/// Upper bound assumed for every clock value: 2^48 ms (~8900 years).  `now_ms()`
/// is an epoch-scale millisecond counter (~2^41 today); the code adds small
/// constants to it without overflow checks, so clocks near u64::MAX are outside
/// every claim.
pub const T_MAX: u64 = 1 << 48;

#[cfg(kani)]
pub fn any_time() -> u64 {
    let t: u64 = kani::any();
    kani::assume(t <= T_MAX);
    t
}

#[cfg(kani)]
pub fn any_opt_time() -> Option<u64> {
    if kani::any() { Some(any_time()) } else { None }
}

#[cfg(kani)]
pub fn any_cc() -> CongestionControl {
    CongestionControl {
        nak_count: kani::any(),
        last_nak_time_ms: kani::any(),
        last_window_increase_ms: kani::any(),
        consecutive_acks_without_nak: kani::any(),
        fast_recovery_mode: kani::any(),
        fast_recovery_start_ms: kani::any(),
        nak_burst_count: kani::any(),
        nak_burst_start_time_ms: kani::any(),
    }
}

#[cfg(kani)]
pub fn any_window() -> i32 {
    let w: i32 = kani::any();
    kani::assume(w >= 1000 && w <= 60000);
    w
}

#[cfg(kani)]
pub fn any_phase() -> LinkPhase {
    let k: u8 = kani::any();
    match k & 3 {
        0 => LinkPhase::Registering,
        1 => LinkPhase::Warming { rtt_probes: kani::any(), entered_ms: any_time() },
        2 => LinkPhase::Live,
        _ => LinkPhase::Degraded,
    }
}

/// How much of a connection is made symbolic.
#[derive(Clone, Copy)]
pub struct Sym {
    /// smoothed RTT: 0 = "no RTT yet" (kalman value 0.0), 1 = symbolic integer-valued ms in
    /// 0..=5000 (the code only ever uses `srtt as u64` and sign tests), 2 = fully symbolic finite f64
    pub rtt: u8,
    /// symbolic f64 fields used by enhanced scoring (bitrate, rtt_min, cached quality multiplier)
    pub score_floats: bool,
}

pub const SYM_INT: Sym = Sym { rtt: 1, score_floats: false };
pub const SYM_FULL: Sym = Sym { rtt: 1, score_floats: true };

/// An arbitrary link.  Everything a scheduler / stall guard / liveness predicate reads is a
/// solver variable, constrained only by the representation invariant documented in DESIGN.md:
/// window in [1000,60000], in-flight >= 0, floats finite and in their documented ranges.
/// `packet_log` and the batch queue are left empty unless a harness fills them (selection
/// reads only the in-flight *count*, which is symbolic here).
#[cfg(kani)]
pub fn any_conn(id: u64, sym: Sym) -> SrtlaConnection {
    let mut c = SrtlaConnection::new_registering(id, String::new(), IpAddr::V4(Ipv4Addr::LOCALHOST), 0);
    c.connected = kani::any();
    c.window = any_window();
    let inf: i32 = kani::any();
    kani::assume(inf >= 0);
    c.in_flight_packets = inf;
    c.last_received = any_opt_time();
    c.last_sent = any_opt_time();
    *c.vh_last_keepalive_sent_mut() = any_opt_time();
    c.last_ack_or_rtt_sample_ms = any_time();
    *c.vh_stall_gated_mut() = kani::any();
    *c.vh_stall_latched_since_ms_mut() = any_time();
    *c.vh_stall_recovery_since_ms_mut() = any_time();
    let ev: u64 = kani::any();
    kani::assume(ev < u64::MAX / 2);
    *c.vh_stall_gate_events_mut() = ev;
    let pc: u32 = kani::any();
    kani::assume(pc < 100);
    *c.vh_stall_probe_counter_mut() = pc;
    *c.vh_silence_pulled_mut() = kani::any();
    let sp: u64 = kani::any();
    kani::assume(sp < u64::MAX / 2);
    *c.vh_silence_pulls_mut() = sp;
    let to: u64 = kani::any();
    kani::assume(to >= 1000 && to <= 60000);
    *c.vh_conn_timeout_ms_mut() = to;
    *c.vh_phase_mut() = any_phase();
    *c.vh_congestion_mut() = any_cc();
    c.weak = kani::any();
    c.cc_backing_off = kani::any();
    c.loss_degraded = kani::any();
    c.cc_target_bps = kani::any();
    c.reconnection.last_reconnect_attempt_ms = any_time();
    c.reconnection.reconnect_failure_count = kani::any();
    c.reconnection.connection_established_ms = any_time();
    c.reconnection.startup_grace_deadline_ms = any_time();
    match sym.rtt {
        0 => {}
        1 => {
            let ms: u16 = kani::any();
            kani::assume(ms <= 5000);
            let init: bool = kani::any();
            c.rtt.kalman_rtt = KalmanFilter::vh_from_parts(ms as f64, 0.0, [0.0; 4], init);
        }
        _ => {
            let x: f64 = kani::any();
            kani::assume(x.is_finite());
            let v: f64 = kani::any();
            kani::assume(v.is_finite());
            c.rtt.kalman_rtt = KalmanFilter::vh_from_parts(x, v, [0.0; 4], kani::any());
        }
    }
    if sym.score_floats {
        let bps: f64 = kani::any();
        kani::assume(bps >= 0.0 && bps <= 1.0e10);
        c.vh_bitrate_mut().current_bitrate_bps = bps;
        let rmin: f64 = kani::any();
        kani::assume(rmin.is_finite());
        c.rtt.rtt_min_ms = rmin;
        let q: f64 = kani::any();
        kani::assume(q >= 0.35 && q <= 1.1 * 1.03);
        *c.vh_quality_cache_mut() = CachedQuality { multiplier: q, last_calculated_ms: any_time() };
    }
    c
}

#[cfg(kani)]
pub fn any_config(mode: SchedulingMode) -> ConfigSnapshot {
    let to: u64 = kani::any();
    kani::assume(to >= 1000 && to <= 60000);
    let stale: u64 = kani::any();
    kani::assume(stale <= T_MAX);
    ConfigSnapshot {
        mode,
        quality_enabled: kani::any(),
        stall_deselect: kani::any(),
        stall_min_in_flight: kani::any(),
        stall_ack_stale_ms: stale,
        conn_timeout_ms: to,
    }
}

/// The liveness predicate restated from the documentation (not by calling the code under test):
/// a connected link is timed out iff it has heard nothing for `timeout` ms; a never-established,
/// not-connected link is alive while inside its start-up grace; any other not-connected link is
/// timed out once it has heard nothing (or never anything) for `timeout` ms.
pub fn ref_timed_out(c: &SrtlaConnection, now: u64, timeout: u64) -> bool {
    if c.connected {
        match c.last_received {
            Some(lr) => now.saturating_sub(lr) >= timeout,
            None => false,
        }
    } else {
        if c.reconnection.connection_established_ms == 0 && now < c.reconnection.startup_grace_deadline_ms {
            return false;
        }
        match c.last_received {
            Some(lr) => now.saturating_sub(lr) >= timeout,
            None => true,
        }
    }
}

/// "usable" in the sense of C03/C04: registered since its last reset, connected, not timed out.
pub fn ref_usable(c: &SrtlaConnection, now: u64, timeout: u64) -> bool {
    c.connected && !matches!(c.vh_phase(), LinkPhase::Registering) && !ref_timed_out(c, now, timeout)
}
