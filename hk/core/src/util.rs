//! Shared helpers for the core harnesses: arbitrary-state builders and stubs.
use std::net::{IpAddr, Ipv4Addr};

use srtla_core::connection::{LinkPhase, SrtlaConnection};

/// Stub for `alloc::fmt::format` (log / warn message construction is not the
/// subject of any property; real `format!` costs minutes of symbolic execution).
pub fn no_format(_: core::fmt::Arguments<'_>) -> String {
    String::new()
}
