//! Model of `std::collections::HashMap<u64, V>` (V: 1..=4 plain bytes) installed with `#[kani::stub]`.
//!
//! hashbrown's raw table (SIMD group probing, SipHash over the key, allocation) does not get through CBMC's
//! symbolic execution in useful time, and std cannot be patched like a crates.io dependency.  The stubs below
//! replace the five entry points `WeakLinkFilter` uses (`with_capacity`, `get`, `insert`, `clear`, and
//! `RandomState::new` behind `Default`) by a small association list kept in a static.  A map's identity
//! travels in its own bytes: the stubbed `RandomState::new` hands out a fresh id as the hasher key, which a
//! move (`self.prev_weak = next_prev_weak`) carries along.  Native replays do not use any of this: they run
//! the real HashMap.
use std::alloc::Allocator;
use std::collections::HashMap;
use std::hash::RandomState;

pub const MAPS: usize = 12;
pub const SLOTS: usize = 3;

#[derive(Clone, Copy)]
pub struct Slot {
    used: bool,
    key: u64,
    val: u32,
}

const EMPTY: Slot = Slot { used: false, key: 0, val: 0 };
static mut NEXT_ID: u64 = 0;
static mut STORE: [[Slot; SLOTS]; MAPS] = [[EMPTY; SLOTS]; MAPS];

pub fn rs_new() -> RandomState {
    unsafe {
        let id = NEXT_ID;
        NEXT_ID += 1;
        assert!((id as usize) < MAPS, "MODEL: more HashMaps created than the model holds");
        core::mem::transmute::<(u64, u64), RandomState>((id, 0))
    }
}

fn map_id<K, V, S, A: Allocator>(m: &HashMap<K, V, S, A>) -> usize {
    let h: &S = m.hasher();
    unsafe { *(h as *const S as *const u64) as usize }
}

pub fn with_capacity<K, V>(_n: usize) -> HashMap<K, V, RandomState> {
    HashMap::with_hasher(rs_new())
}

pub fn get<'a, K, V, S, A: Allocator, Q: ?Sized>(m: &'a HashMap<K, V, S, A>, k: &Q) -> Option<&'a V> {
    let id = map_id(m);
    let key = unsafe { *(k as *const Q as *const u64) };
    let mut i = 0;
    while i < SLOTS {
        let s = unsafe { &STORE[id][i] };
        if s.used && s.key == key {
            return Some(unsafe { &*(&s.val as *const u32 as *const V) });
        }
        i += 1;
    }
    None
}

pub fn insert<K, V, S, A: Allocator>(m: &mut HashMap<K, V, S, A>, k: K, v: V) -> Option<V> {
    let id = map_id(m);
    let key = unsafe { *(&k as *const K as *const u64) };
    let mut val: u32 = 0;
    unsafe { core::ptr::copy_nonoverlapping(&v as *const V as *const u8, &mut val as *mut u32 as *mut u8, core::mem::size_of::<V>()) };
    core::mem::forget(k);
    core::mem::forget(v);
    let mut free = SLOTS;
    let mut i = 0;
    while i < SLOTS {
        let s = unsafe { &mut STORE[id][i] };
        if s.used && s.key == key {
            let old = unsafe { core::ptr::read(&s.val as *const u32 as *const V) };
            s.val = val;
            return Some(old);
        }
        if !s.used && free == SLOTS {
            free = i;
        }
        i += 1;
    }
    assert!(free < SLOTS, "MODEL: HashMap model capacity exceeded");
    unsafe { STORE[id][free] = Slot { used: true, key, val } };
    None
}

pub fn clear<K, V, S, A: Allocator>(m: &mut HashMap<K, V, S, A>) {
    let id = map_id(m);
    let mut i = 0;
    while i < SLOTS {
        unsafe { STORE[id][i].used = false };
        i += 1;
    }
}

#[cfg(kani)]
#[kani::proof]
#[kani::unwind(5)]
#[kani::stub(std::hash::RandomState::new, rs_new)]
#[kani::stub(std::collections::HashMap::with_capacity, with_capacity)]
#[kani::stub(std::collections::HashMap::get, get)]
#[kani::stub(std::collections::HashMap::insert, insert)]
#[kani::stub(std::collections::HashMap::clear, clear)]
fn hm_smoke() {
    let mut a: HashMap<u64, u32> = HashMap::with_capacity(2);
    let mut b: HashMap<u64, bool> = HashMap::default();
    let k: u64 = kani::any();
    let v: u32 = kani::any();
    a.insert(k, v);
    b.insert(k, true);
    b.insert(k.wrapping_add(1), false);
    let c = a; // move
    assert!(c.get(&k).copied() == Some(v));
    assert!(b.get(&k).copied() == Some(true));
    assert!(b.get(&k.wrapping_add(1)).copied() == Some(false));
    assert!(b.get(&k.wrapping_add(2)).is_none());
    b.clear();
    assert!(b.get(&k).is_none());
    assert!(c.get(&k).copied() == Some(v));
}
