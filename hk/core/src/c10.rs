//! C10 (a) – classic mode reproduces the reference srtla_send selection; C12 (b) – with the stall
//! guard off every decision equals the decision on the same links with no stall history.
use srtla_core::config_snapshot::ConfigSnapshot;
use srtla_core::connection::{LinkPhase, SrtlaConnection};
use srtla_core::mode::SchedulingMode;
use srtla_core::selection::select_connection_idx;

use crate::util::*;

/// Abstraction of the capacity score used by the N-link harnesses below: a deterministic function
/// of the link (an otherwise unread symbolic field), -1 when not connected exactly like the real
/// one.  The real formula is decided on its own in `c10_get_score_formula`; the N-link harnesses
/// then hold for EVERY score function of the link state, and contain no divider circuits (SAT
/// solvers do not finish on relational queries over two copies of a divider).
pub fn abs_score(c: &SrtlaConnection) -> i32 {
    if !c.connected {
        return -1;
    }
    let v = c.vh_congestion().consecutive_acks_without_nak;
    if v >= 0 { v } else { 0 }
}

/// get_score() = window / (in-flight + queued + 1), integer division, -1 when not connected.
#[kani::proof]
#[kani::unwind(4)]
fn c10_get_score_formula() {
    let mut v = any_vals(SYM_INT);
    let q: u8 = kani::any();
    kani::assume(q <= 2);
    v.queued = q;
    let c = build_conn(1, &v);
    let got = c.get_score();
    if !v.connected {
        assert!(got == -1, "a disconnected link scores -1");
    } else {
        let denom = v.in_flight as i64 + q as i64 + 1;
        assert!(got as i64 == v.window as i64 / denom, "score = window / (in-flight + queued + 1), integer division");
        assert!(got >= 0, "a connected link never scores below zero");
    }
    kani::cover!(v.connected && v.in_flight == i32::MAX && q == 2, "in-flight at i32::MAX does not overflow");
    kani::cover!(v.connected && got == 60000, "idle link at the maximum window");
    core::mem::forget(c);
}

/// Reference algorithm, written from the property statement (and the original C select_conn):
/// among usable uplinks pick the largest window / (in-flight + queued + 1), integer division,
/// first maximum wins.
fn ref_classic<const N: usize>(scores: &[i32; N], usable: &[bool; N]) -> Option<usize> {
    let mut best: Option<usize> = None;
    let mut best_score: i64 = -1;
    let mut i = 0;
    while i < N {
        if usable[i] {
            let score = scores[i] as i64;
            if score > best_score {
                best_score = score;
                best = Some(i);
            }
        }
        i += 1;
    }
    best
}

fn check_classic_reference<const N: usize>() {
    let now = any_now();
    let mut cfg = any_config(SchedulingMode::Classic);
    cfg.stall_deselect = false; // the statement is for the guard off
    let vals: [ConnVals; N] = core::array::from_fn(|_| any_vals(SYM_INT));
    let mut conns: [SrtlaConnection; N] = core::array::from_fn(|i| build_conn(i as u64 + 1, &vals[i]));
    let usable: [bool; N] = core::array::from_fn(|i| ref_usable(&conns[i], now, cfg.conn_timeout_ms));
    let last = if kani::any() { Some(kani::any::<usize>()) } else { None };

    let scores: [i32; N] = core::array::from_fn(|i| abs_score(&conns[i]));
    let res = select_connection_idx(&mut conns[..], last, now, &cfg);
    let want = ref_classic(&scores, &usable);
    assert!(res == want, "C10: classic choice = first argmax of the capacity score over usable uplinks, nothing else matters");

    kani::cover!(want == Some(N - 1), "last link is the reference choice");
    kani::cover!(want == Some(0) && N > 1 && usable[1] && scores[0] == scores[1], "tie goes to the lowest index");
    kani::cover!(want == Some(0) && vals[0].weak && vals[0].loss_degraded && vals[0].stall_gated && last == Some(1) && N > 1 && usable[1],
        "quality flags, stale stall flags and the previous choice have no influence");
    kani::cover!(want.is_none(), "nothing usable");
    core::mem::forget(conns);
}

#[kani::proof]
#[kani::unwind(5)]
#[kani::stub(srtla_core::connection::SrtlaConnection::get_score, abs_score)]
fn c10_classic_reference_n2() {
    check_classic_reference::<2>();
}

#[kani::proof]
#[kani::unwind(5)]
#[kani::stub(srtla_core::connection::SrtlaConnection::get_score, abs_score)]
fn c10_classic_reference_n3() {
    check_classic_reference::<3>();
}

#[kani::proof]
#[kani::unwind(6)]
#[kani::stub(srtla_core::connection::SrtlaConnection::get_score, abs_score)]
fn c10_classic_reference_n4() {
    check_classic_reference::<4>();
}

/// C12 (b): guard off -> flags cleared (asserted in c03) and the decision equals the decision on a
/// twin built from the same values with a clean stall history.
fn check_guard_off_baseline<const N: usize>(mode: SchedulingMode, sym: Sym, fresh_cache: bool) {
    let now = any_now();
    let mut cfg = any_config(mode);
    cfg.stall_deselect = false;
    let vals: [ConnVals; N] = core::array::from_fn(|_| any_vals(sym));
    if fresh_cache {
        for v in vals.iter() {
            kani::assume(now.saturating_sub(v.quality_at_ms) < 50);
        }
    }
    let clean: [ConnVals; N] = core::array::from_fn(|i| {
        let mut v = vals[i];
        v.stall_gated = false;
        v.latched_since = 0;
        v.recovery_since = 0;
        v.silence_pulled = false;
        v.gate_events = 0;
        v.silence_pulls = 0;
        v.probe_counter = 0;
        v
    });
    let mut a: [SrtlaConnection; N] = core::array::from_fn(|i| build_conn(i as u64 + 1, &vals[i]));
    let mut b: [SrtlaConnection; N] = core::array::from_fn(|i| build_conn(i as u64 + 1, &clean[i]));
    let last = if kani::any() { Some(kani::any::<usize>()) } else { None };
    let ra = select_connection_idx(&mut a[..], last, now, &cfg);
    let rb = select_connection_idx(&mut b[..], last, now, &cfg);
    assert!(ra == rb, "C12: guard off -> same decision as with no stall history at all");
    let mut i = 0;
    while i < N {
        assert!(!*a[i].vh_stall_gated() && *a[i].vh_stall_latched_since_ms() == 0 && *a[i].vh_stall_recovery_since_ms() == 0
            && !*a[i].vh_silence_pulled(), "C12: guard off clears flag, latch, run and pull");
        i += 1;
    }
    kani::cover!(ra.is_some() && vals[0].latched_since != 0 && vals[0].stall_gated, "history present on link 0");
    kani::cover!(ra == Some(0) && vals[0].stall_gated && vals[0].silence_pulled, "a previously gated link is chosen once the guard is off");
    core::mem::forget(a);
    core::mem::forget(b);
}

#[kani::proof]
#[kani::unwind(4)]
#[kani::stub(srtla_core::connection::SrtlaConnection::get_score, abs_score)]
fn c12_guard_off_classic_n2() {
    check_guard_off_baseline::<2>(SchedulingMode::Classic, SYM_INT, false);
}

#[kani::proof]
#[kani::unwind(5)]
#[kani::stub(srtla_core::connection::SrtlaConnection::get_score, abs_score)]
fn c12_guard_off_classic_n3() {
    check_guard_off_baseline::<3>(SchedulingMode::Classic, SYM_INT, false);
}

#[kani::proof]
#[kani::unwind(4)]
#[kani::stub(srtla_core::connection::SrtlaConnection::get_score, abs_score)]
#[kani::stub(srtla_core::selection::enhanced::in_flight_cap_exceeded, crate::c03::cap_exceeded_abs)]
#[kani::stub(srtla_core::selection::enhanced::cc_soft_cap_multiplier, crate::c03::soft_cap_abs)]
fn c12_guard_off_enhanced_n2() {
    check_guard_off_baseline::<2>(SchedulingMode::Enhanced, SYM_LEAF, true);
}
