//! C10 (a) – classic mode reproduces the reference srtla_send selection; C12 (b) – with the stall
//! guard off every decision equals the decision on the same links with no stall history.
use srtla_core::config_snapshot::ConfigSnapshot;
use srtla_core::connection::{LinkPhase, SrtlaConnection};
use srtla_core::mode::SchedulingMode;
use srtla_core::selection::select_connection_idx;

use crate::util::*;

/// Reference algorithm, written from the property statement (and the original C select_conn):
/// among usable uplinks pick the largest window / (in-flight + queued + 1), integer division,
/// first maximum wins.
fn ref_classic<const N: usize>(vals: &[ConnVals; N], usable: &[bool; N]) -> Option<usize> {
    let mut best: Option<usize> = None;
    let mut best_score: i64 = -1;
    let mut i = 0;
    while i < N {
        if usable[i] {
            let denom = vals[i].in_flight as i64 + vals[i].queued as i64 + 1;
            let score = vals[i].window as i64 / denom;
            if score > best_score {
                best_score = score;
                best = Some(i);
            }
        }
        i += 1;
    }
    best
}

fn check_classic_reference<const N: usize>() {
    let now = any_now();
    let mut cfg = any_config(SchedulingMode::Classic);
    cfg.stall_deselect = false; // the statement is for the guard off
    let mut vals: [ConnVals; N] = core::array::from_fn(|_| any_vals(SYM_FULL));
    let mut k = 0;
    while k < N {
        let q: u8 = kani::any();
        kani::assume(q <= 2);
        vals[k].queued = q;
        k += 1;
    }
    let mut conns: [SrtlaConnection; N] = core::array::from_fn(|i| build_conn(i as u64 + 1, &vals[i]));
    let usable: [bool; N] = core::array::from_fn(|i| ref_usable(&conns[i], now, cfg.conn_timeout_ms));
    let last = if kani::any() { Some(kani::any::<usize>()) } else { None };

    let res = select_connection_idx(&mut conns[..], last, now, &cfg);
    let want = ref_classic(&vals, &usable);
    assert!(res == want, "C10: classic choice = first argmax of window/(in-flight+queued+1) over usable uplinks");

    kani::cover!(want == Some(N - 1), "last link is the reference choice");
    kani::cover!(want == Some(0) && N > 1 && usable[1] && vals[0].window / (vals[0].in_flight + 1) == vals[1].window / (vals[1].in_flight + 1)
        && vals[0].queued == 0 && vals[1].queued == 0, "tie goes to the lowest index");
    kani::cover!(want.is_some() && vals[0].queued == 2, "queued packets counted");
    kani::cover!(want.is_none(), "nothing usable");
    core::mem::forget(conns);
}

#[kani::proof]
#[kani::unwind(5)]
fn c10_classic_reference_n2() {
    check_classic_reference::<2>();
}

#[kani::proof]
#[kani::unwind(5)]
fn c10_classic_reference_n3() {
    check_classic_reference::<3>();
}

#[kani::proof]
#[kani::unwind(6)]
fn c10_classic_reference_n4() {
    check_classic_reference::<4>();
}

/// C12 (b): guard off -> flags cleared (asserted in c03) and the decision equals the decision on a
/// twin built from the same values with a clean stall history.
fn check_guard_off_baseline<const N: usize>(mode: SchedulingMode, sym: Sym, fresh_cache: bool) {
    let now = any_now();
    let mut cfg = any_config(mode);
    cfg.stall_deselect = false;
    let vals: [ConnVals; N] = core::array::from_fn(|_| any_vals(sym));
    if fresh_cache {
        for v in vals.iter() {
            kani::assume(now.saturating_sub(v.quality_at_ms) < 50);
        }
    }
    let clean: [ConnVals; N] = core::array::from_fn(|i| {
        let mut v = vals[i];
        v.stall_gated = false;
        v.latched_since = 0;
        v.recovery_since = 0;
        v.silence_pulled = false;
        v.gate_events = 0;
        v.silence_pulls = 0;
        v.probe_counter = 0;
        v
    });
    let mut a: [SrtlaConnection; N] = core::array::from_fn(|i| build_conn(i as u64 + 1, &vals[i]));
    let mut b: [SrtlaConnection; N] = core::array::from_fn(|i| build_conn(i as u64 + 1, &clean[i]));
    let last = if kani::any() { Some(kani::any::<usize>()) } else { None };
    let ra = select_connection_idx(&mut a[..], last, now, &cfg);
    let rb = select_connection_idx(&mut b[..], last, now, &cfg);
    assert!(ra == rb, "C12: guard off -> same decision as with no stall history at all");
    let mut i = 0;
    while i < N {
        assert!(!*a[i].vh_stall_gated() && *a[i].vh_stall_latched_since_ms() == 0 && *a[i].vh_stall_recovery_since_ms() == 0
            && !*a[i].vh_silence_pulled(), "C12: guard off clears flag, latch, run and pull");
        i += 1;
    }
    kani::cover!(ra.is_some() && vals[0].latched_since != 0 && vals[0].stall_gated, "history present on link 0");
    kani::cover!(ra == Some(0) && vals[0].stall_gated && vals[0].silence_pulled, "a previously gated link is chosen once the guard is off");
    core::mem::forget(a);
    core::mem::forget(b);
}

#[kani::proof]
#[kani::unwind(4)]
fn c12_guard_off_classic_n2() {
    check_guard_off_baseline::<2>(SchedulingMode::Classic, SYM_INT, false);
}

#[kani::proof]
#[kani::unwind(5)]
fn c12_guard_off_classic_n3() {
    check_guard_off_baseline::<3>(SchedulingMode::Classic, SYM_INT, false);
}

#[kani::proof]
#[kani::unwind(4)]
fn c12_guard_off_enhanced_n2() {
    check_guard_off_baseline::<2>(SchedulingMode::Enhanced, SYM_FULL, true);
}
