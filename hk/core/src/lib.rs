#![allow(dead_code, unused_imports, clippy::all)]
extern crate alloc;
pub mod util;
#[cfg(kani)]
mod c06;
#[cfg(kani)]
mod c11;
#[cfg(kani)]
mod c11b;
#[cfg(kani)]
mod c13;
#[cfg(kani)]
mod c14;
#[cfg(kani)]
mod c16;
#[cfg(kani)]
mod c17;
#[cfg(kani)]
mod c01;
#[cfg(kani)]
mod c02;
#[cfg(kani)]
pub mod c03;
#[cfg(kani)]
mod c07;
#[cfg(kani)]
mod c08;
#[cfg(kani)]
pub mod c10;
