#![allow(dead_code, unused_imports, clippy::all)]
extern crate alloc;
pub mod util;
#[cfg(kani)]
mod c06;
#[cfg(kani)]
mod c13;
