//! C02 – per-link in-flight count equals packets sent and not yet retired.
//!
//! Differential against a set model.  The link's outstanding set is an arbitrary set S of up to
//! three distinct sequence numbers (solver variables) together with an arbitrary cumulative-ACK
//! high-water mark, under the representation invariant
//!     INV:  every outstanding sequence number lies above the high-water mark,
//! which holds initially (empty log) and is asserted to be re-established by every event – so the
//! one-step facts extend to histories of any length, including retransmissions of already-acked
//! numbers, duplicate / stale / far-ahead ACKs and resets.
use srtla_core::connection::SrtlaConnection;

use crate::util::*;

pub fn no_rtt_update(_: &mut srtla_core::connection::RttTracker, _: u64, _: u64) {}

struct Pre {
    n: usize,
    s: [i32; 3],
    hw: i32,
}

/// Sequence numbers are drawn from a window of 256 consecutive values `BASE..=BASE+255` of the
/// 31-bit space (base concrete per harness instance, offset a solver variable).  The window is
/// wide enough for in-order, duplicate, stale, <= 64-ahead (fast path) and far-ahead (slow path)
/// ACKs; instances: the low edge (0), the high edge (2^31 - 256) and a VERIF_SEED-chosen base.
/// A fully symbolic 31-bit base did not finish in CBMC (the 64-iteration fast path against
/// three symbolic 32-bit keys: > 25 min); the windowing is a stated bound.
fn any_seq<const BASE: i32>() -> i32 {
    let o: u8 = kani::any();
    BASE + o as i32
}

const fn seed_base() -> i32 {
    let s = match option_env!("VERIF_SEED") {
        None => 0u64,
        Some(s) => {
            let b = s.as_bytes();
            let mut i = 0;
            let mut v = 0u64;
            while i < b.len() {
                if b[i] >= b'0' && b[i] <= b'9' {
                    v = v.wrapping_mul(10).wrapping_add((b[i] - b'0') as u64);
                }
                i += 1;
            }
            v
        }
    };
    (1_000 + (s.wrapping_mul(7_919_317) % 2_000_000_000)) as i32
}
const LOW: i32 = 0;
const HIGH: i32 = i32::MAX - 255;
const MID: i32 = seed_base();

/// Arbitrary link whose log holds exactly the set {s[0..n]} and satisfies INV.
fn any_link_with_log<const BASE: i32>() -> (SrtlaConnection, Pre) {
    let mut c = any_conn(1, SYM_INT);
    let n: usize = kani::any();
    kani::assume(n <= 3);
    let s = [any_seq::<BASE>(), any_seq::<BASE>(), any_seq::<BASE>()];
    kani::assume(s[0] != s[1] && s[0] != s[2] && s[1] != s[2]);
    let hw: i32 = if kani::any() { i32::MIN } else { any_seq::<BASE>() };
    let mut i = 0;
    while i < 3 {
        if i < n {
            kani::assume(s[i] > hw); // INV
            c.vh_packet_log_mut().insert(s[i], any_time());
        }
        i += 1;
    }
    c.in_flight_packets = n as i32;
    *c.vh_highest_acked_seq_mut() = hw;
    (c, Pre { n, s, hw })
}

fn holds(c: &SrtlaConnection, s: i32) -> bool {
    c.vh_packet_log().contains_key(&s)
}

/// INV + "count == |set|" on the post-state.  `cands` are all numbers that can be outstanding
/// (the pre-state set plus the event's argument); the count assertion shows there are no others.
fn check_inv(c: &SrtlaConnection, cands: &[i32; 4]) {
    assert!(c.in_flight_packets >= 0, "in-flight never negative");
    assert!(c.in_flight_packets as usize == c.vh_packet_log().len(), "in-flight count equals the number of outstanding sequence numbers");
    let hw = *c.vh_highest_acked_seq();
    let mut i = 0;
    while i < 4 {
        if holds(c, cands[i]) {
            assert!(cands[i] > hw, "INV: every outstanding sequence number lies above the cumulative-ACK mark");
        }
        i += 1;
    }
}

fn c02_register_step_g<const BASE: i32>() {
    let (mut c, p) = any_link_with_log::<BASE>();
    let s = any_seq::<BASE>();
    let already = (p.n > 0 && s == p.s[0]) || (p.n > 1 && s == p.s[1]) || (p.n > 2 && s == p.s[2]);
    c.register_packet(s, any_time());
    assert!(holds(&c, s), "a sent packet is outstanding");
    assert!(c.in_flight_packets as usize == p.n + if already { 0 } else { 1 }, "distinct sequence numbers are counted once");
    let mut i = 0;
    while i < 3 {
        if i < p.n {
            assert!(holds(&c, p.s[i]), "sending does not retire anything");
        }
        i += 1;
    }
    check_inv(&c, &[p.s[0], p.s[1], p.s[2], s]);
    kani::cover!(s <= p.hw && p.hw != i32::MIN, "retransmission of an already-acked sequence number");
    kani::cover!(already, "duplicate send (probe / re-route)");
    core::mem::forget(c);
}

/// Flush-time registration (`take_batch`) of TWO queued data packets in arbitrary order relative to
/// each other and to the cumulative-ACK mark (a retransmission may sit anywhere in a batch): both are
/// outstanding afterwards, counted once each, and INV is re-established for every member.
fn c02_take_batch_step_g<const BASE: i32>() {
    let (mut c, p) = any_link_with_log::<BASE>();
    kani::assume(p.n <= 2); // leave room for two more in the 4-entry map model
    let a = any_seq::<BASE>();
    let b = any_seq::<BASE>();
    kani::assume(a != b);
    c.batch_sender.queue_packet(&[1u8], Some(a as u32), any_time());
    c.batch_sender.queue_packet(&[2u8], Some(b as u32), any_time());
    let out = c.take_batch(any_now());
    assert!(out.len() == 2, "both datagrams are handed to the flush");
    assert!(holds(&c, a) && holds(&c, b), "both sent packets are outstanding");
    let mut expect = 2;
    let mut i = 0;
    while i < 3 {
        if i < p.n {
            assert!(holds(&c, p.s[i]), "sending retires nothing");
            if p.s[i] != a && p.s[i] != b {
                expect += 1;
            }
        }
        i += 1;
    }
    assert!(c.in_flight_packets == expect, "distinct sequence numbers are counted once");
    check_inv(&c, &[p.s[0], p.s[1], a, b]);
    if p.n == 2 {
        check_inv(&c, &[p.s[0], p.s[1], p.s[2], a]);
    }
    kani::cover!(b <= p.hw && a > p.hw && p.hw != i32::MIN, "the SECOND packet of the batch is a retransmission below the mark");
    kani::cover!(a <= p.hw && b < a && p.hw != i32::MIN, "both below the mark, descending");
    core::mem::forget(out);
    core::mem::forget(c);
}

/// Cumulative ACK: retires exactly the outstanding numbers at or below it – whatever the previous
/// mark was (in-order, duplicate, stale, <= 64 ahead, far ahead).
fn c02_cumulative_ack_step_g<const BASE: i32>() {
    let (mut c, p) = any_link_with_log::<BASE>();
    let a = any_seq::<BASE>();
    let (w0, naks0) = (c.window, c.vh_congestion().nak_count);
    c.handle_srt_ack(a, any_now());
    let mut expect = 0;
    let mut i = 0;
    while i < 3 {
        if i < p.n {
            let keep = p.s[i] > a;
            assert!(holds(&c, p.s[i]) == keep, "cumulative ACK retires exactly the numbers at or below it");
            if keep {
                expect += 1;
            }
        }
        i += 1;
    }
    assert!(c.in_flight_packets == expect, "in-flight after a cumulative ACK = numbers above it");
    assert!(c.window == w0 && c.vh_congestion().nak_count == naks0, "a cumulative ACK does not touch window or loss count");
    check_inv(&c, &[p.s[0], p.s[1], p.s[2], a]);
    let range = a as i64 - p.hw as i64;
    kani::cover!(p.hw != i32::MIN && range > 0 && range <= 64 && expect < p.n as i32, "fast path retired something");
    kani::cover!(p.hw != i32::MIN && range > 64 && expect < p.n as i32, "slow path retired something");
    kani::cover!(p.hw == i32::MIN && expect < p.n as i32, "first ACK ever");
    kani::cover!(a <= p.hw, "duplicate / stale ACK");
    kani::cover!(range == 64 && p.n == 3 && expect == 0, "boundary of the fast path");
    core::mem::forget(c);
}

/// The effect of a cumulative ACK does not depend on earlier ACKs: ACK a then b == ACK max(a, b).
fn c02_ack_order_independent_g<const BASE: i32>() {
    let (mut c, p) = any_link_with_log::<BASE>();
    let a = any_seq::<BASE>();
    let b = any_seq::<BASE>();
    c.handle_srt_ack(a, any_now());
    c.handle_srt_ack(b, any_now());
    let m = if a > b { a } else { b };
    let mut expect = 0;
    let mut i = 0;
    while i < 3 {
        if i < p.n {
            assert!(holds(&c, p.s[i]) == (p.s[i] > m), "two ACKs in any order / spacing == one ACK at the larger");
            if p.s[i] > m {
                expect += 1;
            }
        }
        i += 1;
    }
    assert!(c.in_flight_packets == expect, "in-flight after two ACKs");
    check_inv(&c, &[p.s[0], p.s[1], p.s[2], a]);
    kani::cover!(a > b && expect < p.n as i32, "stale second ACK");
    kani::cover!(b as i64 - a as i64 > 64 && a as i64 - p.hw as i64 <= 64 && a > p.hw, "fast then slow path");
    core::mem::forget(c);
}

/// NAK / per-packet SRTLA ACK: retire exactly that number if held, otherwise leave the link
/// untouched.
fn c02_nak_and_srtla_ack_step_g<const BASE: i32>() {
    let (mut c, p) = any_link_with_log::<BASE>();
    let x = any_seq::<BASE>();
    let held = (p.n > 0 && x == p.s[0]) || (p.n > 1 && x == p.s[1]) || (p.n > 2 && x == p.s[2]);
    let (w0, naks0, hw0, proof0) = (c.window, c.vh_congestion().nak_count, *c.vh_highest_acked_seq(), c.last_ack_or_rtt_sample_ms);
    let is_nak: bool = kani::any();
    let found = if is_nak { c.handle_nak(x, any_now()) } else { c.handle_srtla_ack_specific(x, kani::any(), any_now()) };
    assert!(found == held, "reported as handled iff the link held the packet");
    assert!(!holds(&c, x), "the number is no longer outstanding");
    assert!(c.in_flight_packets as usize == p.n - if held { 1 } else { 0 }, "exactly one slot freed iff held");
    let mut i = 0;
    while i < 3 {
        if i < p.n && p.s[i] != x {
            assert!(holds(&c, p.s[i]), "other outstanding numbers are unaffected");
        }
        i += 1;
    }
    if !held {
        assert!(c.window == w0 && c.vh_congestion().nak_count == naks0 && *c.vh_highest_acked_seq() == hw0
            && c.last_ack_or_rtt_sample_ms == proof0, "ACK/NAK for a number the link does not hold leaves it untouched");
    }
    check_inv(&c, &[p.s[0], p.s[1], p.s[2], x]);
    kani::cover!(held && is_nak, "charged NAK");
    kani::cover!(held && !is_nak, "earned SRTLA ACK");
    kani::cover!(!held && x <= p.hw, "NAK for an already-acked number");
    core::mem::forget(c);
}

fn c02_reset_step_g<const BASE: i32>() {
    let (mut c, p) = any_link_with_log::<BASE>();
    let which: u8 = kani::any();
    kani::assume(which < 3);
    match which {
        0 => c.mark_for_recovery(),
        1 => c.reset_for_reconnect(any_now()),
        _ => c.clear_pre_registration_state(any_now()),
    }
    assert!(c.in_flight_packets == 0 && c.vh_packet_log().is_empty(), "a reset retires everything");
    assert!(*c.vh_highest_acked_seq() == i32::MIN, "a reset forgets the cumulative-ACK mark");
    check_inv(&c, &[p.s[0], p.s[1], p.s[2], 0]);
    core::mem::forget(c);
}

/// Bounded symbolic history from a fresh link (thorough tier): 4 events, set model in lock-step.
fn c02_history_4_g<const BASE: i32>() {
    let mut c = any_conn(1, SYM_INT);
    c.in_flight_packets = 0;
    *c.vh_highest_acked_seq_mut() = i32::MIN;
    // set model: up to 4 slots
    let mut m = [0i32; 4];
    let mut used = [false; 4];
    let mut step = 0;
    while step < 4 {
        let ev: u8 = kani::any();
        kani::assume(ev < 4);
        let x = any_seq::<BASE>();
        match ev {
            0 => {
                c.register_packet(x, any_time());
                let mut present = false;
                let mut j = 0;
                while j < 4 {
                    if used[j] && m[j] == x {
                        present = true;
                    }
                    j += 1;
                }
                if !present {
                    let mut placed = false;
                    let mut j = 0;
                    while j < 4 {
                        if !placed && !used[j] {
                            used[j] = true;
                            m[j] = x;
                            placed = true;
                        }
                        j += 1;
                    }
                }
            }
            1 => {
                c.handle_srt_ack(x, any_now());
                let mut j = 0;
                while j < 4 {
                    if used[j] && m[j] <= x {
                        used[j] = false;
                    }
                    j += 1;
                }
            }
            2 => {
                c.handle_nak(x, any_now());
                let mut j = 0;
                while j < 4 {
                    if used[j] && m[j] == x {
                        used[j] = false;
                    }
                    j += 1;
                }
            }
            _ => {
                c.handle_srtla_ack_specific(x, kani::any(), any_now());
                let mut j = 0;
                while j < 4 {
                    if used[j] && m[j] == x {
                        used[j] = false;
                    }
                    j += 1;
                }
            }
        }
        let mut cnt = 0;
        let mut j = 0;
        while j < 4 {
            if used[j] {
                cnt += 1;
                assert!(holds(&c, m[j]), "history: every model member is outstanding on the link");
            }
            j += 1;
        }
        assert!(c.in_flight_packets == cnt, "history: in-flight equals the set model's size after every event");
        step += 1;
    }
    kani::cover!(c.in_flight_packets == 2, "two packets outstanding after the history");
    core::mem::forget(c);
}

// ---- instances: low edge, high edge, seed-chosen window
#[kani::proof]
#[kani::unwind(6)]
fn c02_register_step_low() {
    c02_register_step_g::<LOW>();
}

#[kani::proof]
#[kani::unwind(6)]
fn c02_register_step_high() {
    c02_register_step_g::<HIGH>();
}

#[kani::proof]
#[kani::unwind(6)]
fn c02_register_step_mid() {
    c02_register_step_g::<MID>();
}

#[kani::proof]
#[kani::unwind(67)]
#[kani::stub(srtla_core::connection::RttTracker::update_estimate, no_rtt_update)]
fn c02_cumulative_ack_step_low() {
    c02_cumulative_ack_step_g::<LOW>();
}

#[kani::proof]
#[kani::unwind(67)]
#[kani::stub(srtla_core::connection::RttTracker::update_estimate, no_rtt_update)]
fn c02_cumulative_ack_step_high() {
    c02_cumulative_ack_step_g::<HIGH>();
}

#[kani::proof]
#[kani::unwind(67)]
#[kani::stub(srtla_core::connection::RttTracker::update_estimate, no_rtt_update)]
fn c02_cumulative_ack_step_mid() {
    c02_cumulative_ack_step_g::<MID>();
}

#[kani::proof]
#[kani::unwind(67)]
#[kani::stub(srtla_core::connection::RttTracker::update_estimate, no_rtt_update)]
fn c02_ack_order_independent_low() {
    c02_ack_order_independent_g::<LOW>();
}

#[kani::proof]
#[kani::unwind(67)]
#[kani::stub(srtla_core::connection::RttTracker::update_estimate, no_rtt_update)]
fn c02_ack_order_independent_high() {
    c02_ack_order_independent_g::<HIGH>();
}

#[kani::proof]
#[kani::unwind(67)]
#[kani::stub(srtla_core::connection::RttTracker::update_estimate, no_rtt_update)]
fn c02_ack_order_independent_mid() {
    c02_ack_order_independent_g::<MID>();
}

#[kani::proof]
#[kani::unwind(6)]
#[kani::stub(alloc::fmt::format, no_format)]
fn c02_nak_and_srtla_ack_step_low() {
    c02_nak_and_srtla_ack_step_g::<LOW>();
}

#[kani::proof]
#[kani::unwind(6)]
#[kani::stub(alloc::fmt::format, no_format)]
fn c02_nak_and_srtla_ack_step_high() {
    c02_nak_and_srtla_ack_step_g::<HIGH>();
}

#[kani::proof]
#[kani::unwind(6)]
#[kani::stub(alloc::fmt::format, no_format)]
fn c02_nak_and_srtla_ack_step_mid() {
    c02_nak_and_srtla_ack_step_g::<MID>();
}

#[kani::proof]
#[kani::unwind(6)]
fn c02_reset_step_low() {
    c02_reset_step_g::<LOW>();
}

#[kani::proof]
#[kani::unwind(6)]
fn c02_reset_step_high() {
    c02_reset_step_g::<HIGH>();
}

#[kani::proof]
#[kani::unwind(6)]
fn c02_reset_step_mid() {
    c02_reset_step_g::<MID>();
}

#[kani::proof]
#[kani::unwind(67)]
#[kani::stub(alloc::fmt::format, no_format)]
#[kani::stub(srtla_core::connection::RttTracker::update_estimate, no_rtt_update)]
fn c02_history_4_low() {
    c02_history_4_g::<LOW>();
}

#[kani::proof]
#[kani::unwind(67)]
#[kani::stub(alloc::fmt::format, no_format)]
#[kani::stub(srtla_core::connection::RttTracker::update_estimate, no_rtt_update)]
fn c02_history_4_high() {
    c02_history_4_g::<HIGH>();
}

#[kani::proof]
#[kani::unwind(67)]
#[kani::stub(alloc::fmt::format, no_format)]
#[kani::stub(srtla_core::connection::RttTracker::update_estimate, no_rtt_update)]
fn c02_history_4_mid() {
    c02_history_4_g::<MID>();
}

#[kani::proof]
#[kani::unwind(6)]
fn c02_take_batch_step_low() {
    c02_take_batch_step_g::<LOW>();
}

#[kani::proof]
#[kani::unwind(6)]
fn c02_take_batch_step_high() {
    c02_take_batch_step_g::<HIGH>();
}

#[kani::proof]
#[kani::unwind(6)]
fn c02_take_batch_step_mid() {
    c02_take_batch_step_g::<MID>();
}

