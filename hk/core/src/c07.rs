//! C07 – registration handshake follows the two-phase SRTLA protocol (manager side).
use srtla_core::registration::{RegistrationEvent, SrtlaRegistrationManager, VhRegState};

use crate::util::*;

const NLINKS: usize = 3;

fn any_idx() -> usize {
    let i: usize = kani::any();
    kani::assume(i < NLINKS);
    i
}

fn any_opt_idx() -> Option<usize> {
    if kani::any() { Some(any_idx()) } else { None }
}

/// Arbitrary manager state (every handshake field symbolic, 3 uplinks, symbolic 256-byte id).
fn any_manager() -> SrtlaRegistrationManager {
    let mut m = SrtlaRegistrationManager::new();
    m.srtla_id = kani::any(); // arbitrary 256-byte group id
    let active: usize = kani::any();
    kani::assume(active <= NLINKS);
    let ps: u8 = kani::any();
    kani::assume(ps <= 3);
    m.vh_set_state(VhRegState {
        pending_reg2_idx: any_opt_idx(),
        pending_timeout_at_ms: any_time(),
        active_connections: active,
        broadcast_reg2_pending: kani::any(),
        reg1_target_idx: any_opt_idx(),
        reg1_next_send_at_ms: any_time(),
        probing_state: ps,
    });
    m.has_connected = kani::any();
    m
}

fn check_reg_frame(pkt: &[u8; 258], ty: u16, id: &[u8; 256]) {
    assert!(pkt[0] == (ty >> 8) as u8 && pkt[1] == ty as u8, "emitted frame has the right type");
    let k: usize = kani::any();
    kani::assume(k < 256);
    assert!(pkt[2 + k] == id[k], "emitted REG1/REG2 carries the currently adopted id");
}

/// One driver tick (time-out sweep + driver) from an arbitrary state.
#[kani::proof]
#[kani::unwind(258)]
fn c07_driver_tick() {
    let mut m = any_manager();
    let now = any_now();
    let s0 = m.vh_state();
    let swept = m.clear_pending_if_timed_out(now);
    let s1 = m.vh_state();
    // 4 s rule: an unanswered REG1 is abandoned exactly when its deadline has passed
    let due = s0.pending_reg2_idx.is_some() && s0.pending_timeout_at_ms != 0 && now >= s0.pending_timeout_at_ms;
    assert!(swept.is_some() == due, "pending attempt abandoned iff its deadline has passed");
    if due {
        assert!(swept == s0.pending_reg2_idx && s1.pending_reg2_idx.is_none(), "the abandoned attempt is the pending one");
        assert!(s1.reg1_next_send_at_ms <= now, "a new attempt may start immediately after the sweep");
    } else {
        assert!(s1 == s0, "no sweep, no change");
    }
    let id = m.srtla_id;
    let sends = m.reg_driver_pending_sends(NLINKS, now);
    let s2 = m.vh_state();
    if let Some((idx, pkt)) = sends.reg1 {
        assert!(s1.active_connections == 0, "the driver emits REG1 only while no uplink is registered");
        assert!(s1.pending_reg2_idx.is_none(), "never a second REG1 while one is outstanding");
        assert!(s1.reg1_target_idx == Some(idx) && now >= s1.reg1_next_send_at_ms, "REG1 goes to the chosen uplink, not before its retry time");
        assert!(s2.pending_reg2_idx == Some(idx), "exactly that uplink now awaits REG2");
        assert!(s2.pending_timeout_at_ms == now + 4000, "REG2 deadline = now + 4 s");
        check_reg_frame(&pkt, 0x9200, &id);
    } else {
        assert!(s2.pending_reg2_idx == s1.pending_reg2_idx && s2.pending_timeout_at_ms == s1.pending_timeout_at_ms, "no REG1, no new pending attempt");
    }
    if let Some(pkt) = sends.broadcast_reg2 {
        assert!(s1.broadcast_reg2_pending, "REG2 broadcast only after an accepted REG2");
        check_reg_frame(&pkt, 0x9201, &id);
    } else {
        assert!(!s1.broadcast_reg2_pending, "a flagged broadcast is not skipped");
    }
    assert!(!s2.broadcast_reg2_pending, "exactly one broadcast round: the flag is consumed");
    assert!(m.srtla_id == id, "the driver never changes the id");
    // second tick right after: no second broadcast, no second REG1
    let sends2 = m.reg_driver_pending_sends(NLINKS, now);
    assert!(sends2.broadcast_reg2.is_none(), "the tick after a broadcast emits none");
    if sends.reg1.is_some() {
        assert!(sends2.reg1.is_none(), "no REG1 while the previous one is outstanding");
    }
    kani::cover!(swept.is_some() && sends.reg1.is_none(), "timeout: attempt abandoned, waiting for the next REG_NGP");
    // "...so a new attempt can start": after an abandoned attempt the next REG_NGP is answered
    if due && s2.active_connections == 0 && s2.probing_state != 2 && sends.reg1.is_none() {
        let j = any_idx();
        let ngp = [0x92u8, 0x11];
        m.process_registration_packet(j, &ngp, now);
        let again = m.reg1_if_ngp_immediate(j, now);
        assert!(again.is_some(), "after the 4 s timeout the next REG_NGP starts a new attempt");
        assert!(m.pending_reg2_idx() == Some(j), "the new attempt is on the uplink that answered");
    }
    kani::cover!(sends.broadcast_reg2.is_some(), "broadcast round");
    kani::cover!(sends.reg1.is_none() && s1.active_connections == 0 && s1.reg1_target_idx.is_some() && s1.pending_reg2_idx.is_some(), "REG1 suppressed while pending");
}

/// One inbound handshake packet from an arbitrary state (plus the shell's immediate-REG1 call for
/// REG_NGP, exactly as process_uplink_packet does).
#[kani::proof]
#[kani::unwind(258)]
fn c07_inbound_packet() {
    let mut m = any_manager();
    let now = any_now();
    let from = any_idx();
    let mut buf: [u8; 260] = kani::any();
    let len: usize = kani::any();
    kani::assume(len >= 2 && len <= 260);
    let kind: u8 = kani::any();
    kani::assume(kind < 4);
    let ty: u16 = match kind {
        0 => 0x9211, // REG_NGP
        1 => 0x9201, // REG2
        2 => 0x9202, // REG3
        _ => 0x9210, // REG_ERR
    };
    buf[0] = (ty >> 8) as u8;
    buf[1] = ty as u8;
    let s0 = m.vh_state();
    let id0 = m.srtla_id;
    let hc0 = m.has_connected;
    let ev = m.process_registration_packet(from, &buf[..len], now);
    assert!(ev.is_some(), "handshake packets are recognised at any length >= 2");
    let s1 = m.vh_state();
    match kind {
        0 => {
            assert!(m.srtla_id == id0 && s1.pending_reg2_idx == s0.pending_reg2_idx, "REG_NGP never adopts an id or cancels an attempt");
            assert!(s1.broadcast_reg2_pending == s0.broadcast_reg2_pending, "REG_NGP leaves a flagged broadcast alone");
            let pkt = m.reg1_if_ngp_immediate(from, now);
            let s2 = m.vh_state();
            if let Some(pkt) = pkt {
                assert!(s0.active_connections == 0, "immediate REG1 only while no uplink is registered");
                assert!(s0.pending_reg2_idx.is_none(), "immediate REG1 only while none is outstanding");
                assert!(s2.pending_reg2_idx == Some(from) && s2.pending_timeout_at_ms == now + 4000, "that uplink awaits REG2 for 4 s");
                check_reg_frame(&pkt, 0x9200, &id0);
            } else {
                assert!(s2.pending_reg2_idx == s0.pending_reg2_idx, "no REG1, no pending change");
            }
            kani::cover!(pkt.is_some(), "REG_NGP answered with REG1");
            kani::cover!(pkt.is_none() && s0.pending_reg2_idx.is_some(), "REG_NGP ignored while pending");
        }
        1 => {
            let accept = s0.pending_reg2_idx == Some(from) && len >= 258;
            if accept {
                let k: usize = kani::any();
                kani::assume(k < 256);
                assert!(m.srtla_id[k] == buf[2 + k], "accepted REG2: the full id is adopted");
                assert!(s1.pending_reg2_idx.is_none() && s1.broadcast_reg2_pending, "accepted REG2: attempt complete, one broadcast flagged");
                assert!(s1.reg1_target_idx.is_none(), "no further REG1 until the next REG_NGP");
            } else {
                let k: usize = kani::any();
                kani::assume(k < 256);
                assert!(m.srtla_id[k] == id0[k], "REG2 from the wrong uplink or too short: id unchanged");
                assert!(s1 == s0, "REG2 from the wrong uplink or too short: state unchanged");
            }
            kani::cover!(accept, "REG2 accepted");
            kani::cover!(!accept && s0.pending_reg2_idx == Some(from) && len == 257, "REG2 one byte short");
            kani::cover!(!accept && len >= 258 && s0.pending_reg2_idx.is_some(), "REG2 from the wrong uplink");
        }
        2 => {
            assert!(m.has_connected, "REG3 marks the session as having connected");
            assert!(s1 == s0 && m.srtla_id == id0, "REG3 changes no handshake state");
        }
        _ => {
            assert!(s1.pending_reg2_idx.is_none(), "REG_ERR cancels the pending attempt");
            assert!(s1.reg1_target_idx.is_none() && s1.reg1_next_send_at_ms == now + 4000, "REG_ERR: wait for a fresh REG_NGP");
            assert!(m.srtla_id == id0 && m.has_connected == hc0, "REG_ERR keeps the id");
            assert!(s1.broadcast_reg2_pending == s0.broadcast_reg2_pending, "REG_ERR does not swallow the one REG2 broadcast round an adopted id is owed");
        }
    }
}

/// Housekeeping's re-send path: REG1 is rebuilt only for the uplink that is already pending.
#[kani::proof]
#[kani::unwind(258)]
fn c07_resend_paths() {
    let mut m = any_manager();
    let now = any_now();
    let i = any_idx();
    let id = m.srtla_id;
    kani::assume(m.pending_reg2_idx() == Some(i)); // housekeeping's guard
    let pkt = m.build_reg1_for(i, now);
    check_reg_frame(&pkt, 0x9200, &id);
    let s = m.vh_state();
    assert!(s.pending_reg2_idx == Some(i) && s.pending_timeout_at_ms == now + 4000, "re-sent REG1 stays on the same uplink, deadline re-armed");
    let p2 = m.build_reg2(any_idx());
    check_reg_frame(&p2, 0x9201, &id);
    assert!(m.vh_state() == s, "building a REG2 changes nothing");
}

/// Bounded adversarial history from a fresh manager: ghost set of uplinks with an unanswered REG1.
#[kani::proof]
#[kani::unwind(258)]
fn c07_history_4() {
    let mut m = SrtlaRegistrationManager::new();
    m.srtla_id = kani::any();
    // probing finished (or skipped) and produced some target; this is the state after start-up
    let mut st = m.vh_state();
    st.probing_state = 3;
    st.reg1_target_idx = any_opt_idx();
    m.vh_set_state(st);
    let mut outstanding: [bool; NLINKS] = [false; NLINKS]; // ghost: REG1 sent, not answered / abandoned
    let mut owed_broadcast = false; // ghost: an id was adopted and its one REG2 round has not gone out yet
    let mut now = any_now();
    let mut buf: [u8; 260] = kani::any();
    let mut step = 0;
    while step < 4 {
        let dt: u16 = kani::any();
        now += dt as u64;
        let ev: u8 = kani::any();
        kani::assume(ev < 6);
        let from = any_idx();
        let id_before = m.srtla_id;
        let mut emitted: Option<usize> = None;
        match ev {
            0 => {
                buf[0] = 0x92;
                buf[1] = 0x11;
                m.process_registration_packet(from, &buf[..2], now);
                if let Some(pkt) = m.reg1_if_ngp_immediate(from, now) {
                    emitted = Some(from);
                    check_reg_frame(&pkt, 0x9200, &id_before);
                }
            }
            1 => {
                buf[0] = 0x92;
                buf[1] = 0x01;
                let len: usize = if kani::any() { 258 } else { 100 };
                let was_pending = m.pending_reg2_idx();
                m.process_registration_packet(from, &buf[..len], now);
                if was_pending == Some(from) && len == 258 {
                    assert!(outstanding[from], "history: a REG2 is accepted only from an uplink a REG1 was sent on");
                    outstanding[from] = false;
                    owed_broadcast = true;
                }
            }
            2 => {
                buf[0] = 0x92;
                buf[1] = 0x02;
                m.process_registration_packet(from, &buf[..2], now);
            }
            3 => {
                buf[0] = 0x92;
                buf[1] = 0x10;
                m.process_registration_packet(from, &buf[..2], now);
                outstanding = [false; NLINKS]; // REG_ERR cancels the pending attempt
            }
            _ => {
                // housekeeping tick
                if let Some(i) = m.clear_pending_if_timed_out(now) {
                    outstanding[i] = false;
                }
                let mut s = m.vh_state();
                let act: usize = kani::any();
                kani::assume(act <= NLINKS);
                s.active_connections = act; // update_active_connections: whatever the links say
                m.vh_set_state(s);
                let sends = m.reg_driver_pending_sends(NLINKS, now);
                assert!(sends.broadcast_reg2.is_some() == owed_broadcast, "history: every adopted id is broadcast in exactly one REG2 round, at the next driver tick");
                owed_broadcast = false;
                if let Some((i, pkt)) = sends.reg1 {
                    assert!(act == 0, "history: driver REG1 only while no uplink is registered");
                    emitted = Some(i);
                    check_reg_frame(&pkt, 0x9200, &id_before);
                }
            }
        }
        if let Some(i) = emitted {
            let mut j = 0;
            while j < NLINKS {
                assert!(!outstanding[j] || j == i, "history: never a REG1 outstanding on two uplinks at once");
                j += 1;
            }
            outstanding[i] = true;
        }
        // the ghost agrees with the manager's own view
        let mut j = 0;
        while j < NLINKS {
            if outstanding[j] {
                assert!(m.pending_reg2_idx() == Some(j), "history: an outstanding REG1 is the manager's pending attempt");
            }
            j += 1;
        }
        step += 1;
    }
    kani::cover!(outstanding[1], "a REG1 is outstanding on uplink 1 at the end");
}
