//! C08 – failed uplinks are detected, retried forever, and rejoin cleanly (the per-decision part).
use srtla_core::connection::{LinkPhase, ReconnectionState, SrtlaConnection};

use crate::util::*;

/// Liveness predicate equals the documented rule for every link state, clock and timeout, and
/// therefore does not depend on any routing penalty (the reference reads none of them).
#[kani::proof]
fn c08_timed_out_matches_rule() {
    let c = any_conn(1, SYM_FULL);
    let now = any_time();
    let to = *c.vh_conn_timeout_ms();
    let got = c.is_timed_out(now);
    assert!(got == ref_timed_out(&c, now, to), "is_timed_out equals the documented liveness rule");
    if c.connected && got {
        let lr = c.last_received.unwrap();
        assert!(now.saturating_sub(lr) >= to && to >= 1000, "a connected link is declared dead only after the full configured timeout of silence");
    }
    if c.connected {
        if let Some(lr) = c.last_received {
            if now.saturating_sub(lr) < to {
                assert!(!got, "never earlier than the timeout");
            }
        }
    }
    kani::cover!(got && c.connected && *c.vh_stall_gated() && c.weak, "timed out link that is also penalised");
    kani::cover!(!got && c.connected && *c.vh_stall_gated() && c.loss_degraded && c.weak && *c.vh_silence_pulled(), "penalised but alive");
    kani::cover!(!got && !c.connected, "inside start-up grace");
    core::mem::forget(c);
}

fn any_rc() -> ReconnectionState {
    ReconnectionState {
        last_reconnect_attempt_ms: any_time(),
        reconnect_failure_count: kani::any(),
        connection_established_ms: any_time(),
        startup_grace_deadline_ms: any_time(),
    }
}

/// reference back-off table from the statement: 5 s doubling per failure, capped at 120 s
fn ref_backoff(failures: u32) -> u64 {
    match failures {
        0 => 5_000,
        1 => 10_000,
        2 => 20_000,
        3 => 40_000,
        4 => 80_000,
        _ => 120_000,
    }
}

#[kani::proof]
fn c08_retry_policy() {
    let rc = any_rc();
    let now = any_now();
    let go = rc.should_attempt_reconnect(now);
    let since = now.saturating_sub(rc.last_reconnect_attempt_ms);
    let never = rc.last_reconnect_attempt_ms == 0;
    if rc.connection_established_ms == 0 {
        // initial registration: at least 1 s apart, never inside the start-up grace
        if go {
            assert!(now > rc.startup_grace_deadline_ms, "initial: no retry inside the start-up grace");
            assert!(never || since >= 1000, "initial: retries at least 1 s apart");
        }
        if now > rc.startup_grace_deadline_ms && (never || since >= 1000) {
            assert!(go, "initial: a retry is always permitted 1 s after the previous one (retries never stop)");
        }
    } else {
        if go {
            assert!(never || since >= 5000, "established: retries at least 5 s apart");
        }
        assert!(go == (never || since >= ref_backoff(rc.reconnect_failure_count)), "established: back-off = 5 s x 2^failures capped at 120 s");
        if never || since >= 120_000 {
            assert!(go, "back-off never exceeds 120 s, so retries never stop");
        }
    }
    kani::cover!(go && rc.connection_established_ms != 0 && rc.reconnect_failure_count > 5 && since == 120_000, "retry exactly at the 120 s cap");
    kani::cover!(!go && rc.connection_established_ms != 0 && since == 4_999, "one ms early");
    kani::cover!(go && rc.connection_established_ms == 0, "initial retry");
}

/// After recording an attempt at `t` the next one is refused until the minimum spacing elapsed,
/// and the failure counter only ever saturates (no wrap to a short back-off).
#[kani::proof]
fn c08_record_attempt_spacing() {
    let mut rc = any_rc();
    let t = any_now();
    let f0 = rc.reconnect_failure_count;
    rc.record_attempt("", t);
    assert!(rc.last_reconnect_attempt_ms == t, "attempt time recorded");
    if rc.connection_established_ms != 0 {
        assert!(rc.reconnect_failure_count == f0.saturating_add(1), "failure count +1, saturating");
    } else {
        assert!(rc.reconnect_failure_count == f0, "initial registration does not back off");
    }
    let later = any_now();
    kani::assume(later >= t);
    let min_gap = if rc.connection_established_ms == 0 { 1000 } else { 5000 };
    if later - t < min_gap {
        assert!(!rc.should_attempt_reconnect(later), "no second attempt inside the minimum spacing");
    }
    if later - t >= 120_000 && (rc.connection_established_ms != 0 || later > rc.startup_grace_deadline_ms) {
        assert!(rc.should_attempt_reconnect(later), "an attempt is always possible 120 s after the last one");
    }
    rc.mark_success("");
    assert!(rc.reconnect_failure_count == 0, "success resets the back-off");
    kani::cover!(f0 == u32::MAX && rc.connection_established_ms != 0, "failure counter at saturation");
}

/// Teardown / rejoin post-states: clean accounting.
#[kani::proof]
#[kani::unwind(6)]
fn c08_reset_poststates() {
    let mut c = any_conn(1, SYM_FULL);
    let n: u8 = kani::any();
    kani::assume(n <= 2);
    let (s1, s2): (i32, i32) = (kani::any(), kani::any());
    if n >= 1 {
        c.vh_packet_log_mut().insert(s1, any_time());
    }
    if n >= 2 {
        c.vh_packet_log_mut().insert(s2, any_time());
    }
    let q: u8 = kani::any();
    kani::assume(q <= 2);
    let mut i = 0;
    while i < q {
        c.batch_sender.queue_packet(&[1u8, 2, 3], Some(kani::any()), any_time());
        i += 1;
    }
    let now = any_now();
    let established0 = c.reconnection.connection_established_ms;
    let events0 = *c.vh_stall_gate_events();
    let which: u8 = kani::any();
    kani::assume(which < 3);
    match which {
        0 => {
            c.reset_for_reconnect(now);
            assert!(c.reconnection.last_reconnect_attempt_ms == now && c.reconnection.reconnect_failure_count == 0, "reconnect bookkeeping");
            assert!(c.vh_congestion().nak_count == 0 && !c.vh_congestion().fast_recovery_mode, "loss counters cleared on reconnect");
            assert!(c.reconnection.connection_established_ms == established0, "established stamp survives a reconnect");
        }
        1 => {
            c.mark_for_recovery();
            assert!(c.reconnection.startup_grace_deadline_ms == 0, "recovery: immediately eligible for the reconnect path");
            assert!(c.is_timed_out(now), "a link marked for recovery reads as timed out");
        }
        _ => {
            // REG3 handling in the shell = clear_pre_registration_state + connected + stamps
            let w0 = c.window;
            c.clear_pre_registration_state(now);
            assert!(matches!(c.vh_phase(), LinkPhase::Warming { rtt_probes: 0, entered_ms } if *entered_ms == now), "REG3 -> warming, no probes yet");
            assert!(c.window == w0, "REG3 does not touch the window (it was reset at teardown)");
            assert!(c.vh_congestion().nak_count == 0, "pre-registration NAKs forgotten");
        }
    }
    assert!(c.in_flight_packets == 0 && c.vh_packet_log().is_empty(), "zero in-flight after teardown / REG3");
    assert!(!c.batch_sender.has_queued_packets() && c.batch_sender.queued_count() == 0, "queue emptied");
    assert!(*c.vh_highest_acked_seq() == i32::MIN, "cumulative-ACK mark reset");
    if which < 2 {
        assert!(c.window == 20000, "default window after teardown");
        assert!(!c.connected && matches!(c.vh_phase(), LinkPhase::Registering), "registering after teardown");
        assert!(c.last_received.is_none(), "liveness stamp cleared");
        assert!(!*c.vh_stall_gated() && *c.vh_stall_latched_since_ms() == 0 && *c.vh_stall_recovery_since_ms() == 0
            && !*c.vh_silence_pulled() && c.last_ack_or_rtt_sample_ms == 0, "stall guard state cleared");
        assert!(*c.vh_stall_gate_events() == events0, "lifetime engagement counter survives");
    }
    kani::cover!(which == 0 && n == 2 && q == 2, "reconnect with backlog and queue");
    kani::cover!(which == 2, "REG3 path");
    core::mem::forget(c);
}
