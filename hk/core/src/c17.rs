//! C17 – weak-link classifier cannot starve a link forever or flap on a blip.
//!
//! One tick of the real `WeakLinkFilter::classify` over 2 links from an ARBITRARY hysteresis memory
//! (previous verdict, delay streak, share-weak streak, probation counter per link) under the
//! invariant  weak_streak < 15 and probation <= 3  (re-asserted on the post-state).  Bitrates and
//! RTTs are drawn from grids (the classifier's arithmetic on them is share = bps*1000/total and
//! tier comparisons; fully symbolic f64 inputs are not needed to exercise the stateful logic the
//! property is about).  The real std HashMaps are used with a fixed-key RandomState.
use srtla_core::connection::SrtlaConnection;
use srtla_core::selection::classifier::{WeakLinkFilter, WeakReason};

use crate::util::*;

pub fn rs_stub() -> std::hash::RandomState {
    unsafe { core::mem::transmute::<(u64, u64), std::hash::RandomState>((0, 0)) }
}

const N: usize = 2;

#[derive(Clone, Copy)]
struct Mem {
    prev_weak: bool,
    delay: u32,
    streak: u32,
    probation: u32,
}

fn any_mem() -> Mem {
    let streak: u32 = kani::any();
    kani::assume(streak < 15);
    let probation: u32 = kani::any();
    kani::assume(probation <= 3);
    let delay: u32 = kani::any();
    kani::assume(delay <= 1000);
    Mem { prev_weak: kani::any(), delay, streak, probation }
}

fn grid_bps() -> u64 {
    let k: u8 = kani::any();
    match k % 6 {
        0 => 0,
        1 => 10_000,
        2 => 60_000,
        3 => 200_000,
        4 => 1_000_000,
        _ => 3_000_000,
    }
}

fn grid_rtt() -> u16 {
    let k: u8 = kani::any();
    match k % 4 {
        0 => 0,
        1 => 50,
        2 => 400,
        _ => 3000,
    }
}

#[kani::proof]
#[kani::unwind(20)]
#[kani::stub(std::hash::RandomState::new, rs_stub)]
fn c17_classify_step() {
    let bps: [u64; N] = [grid_bps(), grid_bps()];
    let rtt: [u16; N] = [grid_rtt(), grid_rtt()];
    let connected: [bool; N] = [kani::any(), kani::any()];
    let mem: [Mem; N] = [any_mem(), any_mem()];
    let conns: [SrtlaConnection; N] = core::array::from_fn(|i| {
        let mut c = SrtlaConnection::new_registering(i as u64 + 1, String::new(), std::net::IpAddr::V4(std::net::Ipv4Addr::LOCALHOST), 0);
        c.connected = connected[i];
        c.vh_bitrate_mut().current_bitrate_bps = bps[i] as f64;
        c.rtt.kalman_rtt = srtla_core::kalman::KalmanFilter::vh_from_parts(rtt[i] as f64, 0.0, [0.0; 4], rtt[i] != 0);
        c
    });
    let mut f = WeakLinkFilter::new();
    let mut i = 0;
    while i < N {
        f.vh_set_memory(i as u64 + 1, mem[i].prev_weak, mem[i].delay, mem[i].streak, mem[i].probation);
        i += 1;
    }

    let res = f.classify(&conns[..]);

    let total: u64 = (if connected[0] { bps[0] } else { 0 }) + (if connected[1] { bps[1] } else { 0 });
    let n_conn: u64 = connected[0] as u64 + connected[1] as u64;
    assert!(res.per_link.len() == N, "one verdict per link");
    let bypass = total < 100_000 || n_conn == 0;
    let mut i = 0;
    while i < N {
        let v = &res.per_link[i];
        assert!(v.conn_id == i as u64 + 1, "verdicts are in link order");
        let (pw1, d1, s1, p1) = f.vh_memory(i as u64 + 1);
        if !connected[i] {
            assert!(!v.weak, "a disconnected link is never reported weak");
        }
        if bypass {
            assert!(!v.weak && v.reason == WeakReason::Bypassed, "under 100 kbit/s total nobody is weak");
            assert!(pw1.is_none() && d1.is_none() && s1.is_none() && p1.is_none(), "and the hysteresis memory is cleared");
        } else if connected[i] {
            let m = mem[i];
            let share = bps[i] * 1000 / total; // exact: grid values
            let enter = 250 / n_conn;
            let leave = 750 / n_conn;
            let (s1, p1, d1) = (s1.unwrap(), p1.unwrap(), d1.unwrap());
            // invariant preserved
            assert!(s1 < 15 && p1 <= 3, "INV: share-weak streak < 15 and probation <= 3");
            // delay reasons need the signal on the previous tick too
            if v.weak && (v.reason == WeakReason::HighRtt || v.reason == WeakReason::QueueBuilding) {
                assert!(m.delay >= 1, "a delay signal must persist for two consecutive ticks before it marks a link weak");
                assert!(d1 == m.delay + 1, "the streak counts consecutive ticks");
            }
            assert!(d1 == 0 || d1 == m.delay + 1, "the delay streak either continues or restarts");
            // probation window
            if m.probation > 0 {
                assert!(!v.weak, "inside a probation window the link is reported not weak");
                assert!(p1 == m.probation - 1 && s1 == 0, "the window counts down");
            } else {
                let share_weak = v.weak && (v.reason == WeakReason::LowShare || v.reason == WeakReason::NoTraffic);
                if share_weak {
                    if m.streak == 14 {
                        assert!(s1 == 0 && p1 == 3, "the 15th consecutive share-weak verdict arms a three-tick probation");
                    } else {
                        assert!(s1 == m.streak + 1 && p1 == 0, "share-weak verdicts are counted");
                    }
                } else {
                    assert!(s1 == 0 && p1 == 0, "any other verdict restarts the count");
                }
                // hysteresis on the share
                if v.weak && v.reason == WeakReason::LowShare {
                    if m.prev_weak {
                        assert!(share < leave, "stays weak only below three quarters of fair share");
                    } else {
                        assert!(share < enter, "enters weak only below a quarter of fair share");
                    }
                }
                if m.prev_weak && !v.weak {
                    assert!(share >= leave, "leaves weak only on reaching three quarters of fair share");
                }
                if !m.prev_weak && !v.weak && bps[i] > 0 {
                    assert!(share >= enter || v.reason == WeakReason::Healthy, "not weak at or above the entering threshold");
                }
            }
            assert!(pw1 == Some(v.weak), "the verdict is remembered for the next tick's hysteresis");
        }
        i += 1;
    }
    kani::cover!(!bypass && res.per_link[0].weak && res.per_link[0].reason == WeakReason::HighRtt, "weak for sustained high RTT");
    kani::cover!(!bypass && res.per_link[0].weak && res.per_link[0].reason == WeakReason::LowShare && mem[0].streak == 14, "probation armed");
    kani::cover!(!bypass && mem[0].probation == 2 && connected[0], "inside probation");
    kani::cover!(!bypass && mem[0].prev_weak && !res.per_link[0].weak && mem[0].probation == 0, "left weak through the leave threshold");
    kani::cover!(bypass && connected[0], "bypass floor");
    core::mem::forget(conns);
    core::mem::forget(f);
    core::mem::forget(res);
}
