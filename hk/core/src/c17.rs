//! C17 – weak-link classifier cannot starve a link forever or flap on a blip.
//!
//! One tick of the real `WeakLinkFilter::classify` over 2 links from an ARBITRARY hysteresis memory
//! (previous verdict, delay streak, share-weak streak, probation counter per link) under the
//! invariant  weak_streak < 15 and probation <= 3  (re-asserted on the post-state).  Bitrates and
//! RTTs are drawn from grids (the classifier's arithmetic on them is share = bps*1000/total and
//! tier comparisons; fully symbolic f64 inputs are not needed to exercise the stateful logic the
//! property is about).  The per-link memory lives in srtla-core's `verif-model` container seam (a
//! four-entry array map with the HashMap surface the classifier uses) because std's hashbrown does
//! not get through CBMC; native replays are built WITHOUT that feature and run the real HashMap.
use srtla_core::connection::SrtlaConnection;
use srtla_core::selection::classifier::{WeakLinkFilter, WeakReason};

use crate::util::*;

#[derive(Clone, Copy)]
struct Mem {
    present: bool,
    prev_weak: bool,
    delay: u32,
    streak: u32,
    probation: u32,
}

/// Arbitrary per-link memory under the invariant; `present == false` models a link that joined since the last
/// tick (no memory: every `get` answers None and the classifier falls back to its defaults).
fn any_mem() -> Mem {
    let present: bool = kani::any();
    let streak: u32 = kani::any();
    kani::assume(streak < 15);
    let probation: u32 = kani::any();
    kani::assume(probation <= 3);
    let delay: u32 = kani::any();
    if present {
        Mem { present, prev_weak: kani::any(), delay, streak, probation }
    } else {
        Mem { present, prev_weak: false, delay: 0, streak: 0, probation: 0 }
    }
}

fn grid_bps() -> u64 {
    let k: u8 = kani::any();
    match k % 6 {
        0 => 0,
        1 => 10_000,
        2 => 60_000,
        3 => 200_000,
        4 => 1_000_000,
        _ => 3_000_000,
    }
}

/// Bitrates that put two links summing to 1 Mbit/s exactly on, and one permille below, the N=2 thresholds
/// (enter 125, leave 375 permille).
fn boundary_bps() -> u64 {
    let k: u8 = kani::any();
    match k % 8 {
        0 => 124_000,
        1 => 125_000,
        2 => 374_000,
        3 => 375_000,
        4 => 625_000,
        5 => 626_000,
        6 => 875_000,
        _ => 876_000,
    }
}

fn grid_rtt() -> u16 {
    let k: u8 = kani::any();
    match k % 4 {
        0 => 0,
        1 => 50,
        2 => 400,
        _ => 3000,
    }
}

fn classify_step<const N: usize, const BOUNDARY: bool>() {
    let bps: [u64; N] = core::array::from_fn(|_| if BOUNDARY { boundary_bps() } else { grid_bps() });
    let rtt: [u16; N] = core::array::from_fn(|_| grid_rtt());
    let connected: [bool; N] = core::array::from_fn(|_| kani::any());
    let queue: [bool; N] = core::array::from_fn(|_| kani::any());
    let mem: [Mem; N] = core::array::from_fn(|_| any_mem());
    let conns: [SrtlaConnection; N] = core::array::from_fn(|i| {
        let mut c = SrtlaConnection::new_registering(i as u64 + 1, String::new(), std::net::IpAddr::V4(std::net::Ipv4Addr::LOCALHOST), 0);
        c.connected = connected[i];
        c.vh_bitrate_mut().current_bitrate_bps = bps[i] as f64;
        c.rtt.kalman_rtt = srtla_core::kalman::KalmanFilter::vh_from_parts(rtt[i] as f64, 0.0, [0.0; 4], rtt[i] != 0);
        // queue-building signal: the recent RTT floor far above the long-term one
        if queue[i] {
            c.rtt.rtt_min_fast_ms = 10_000.0;
        }
        c
    });
    // the delay signal's second source, read from the real leaf predicate
    let qb: [bool; N] = core::array::from_fn(|i| conns[i].queue_building_suspected());
    let mut f = WeakLinkFilter::new();
    let mut i = 0;
    while i < N {
        if mem[i].present {
            f.vh_set_memory(i as u64 + 1, mem[i].prev_weak, mem[i].delay, mem[i].streak, mem[i].probation);
        }
        i += 1;
    }
    // stale memory of a link that has left since
    let stale: bool = kani::any();
    if stale {
        f.vh_set_memory(N as u64 + 1, kani::any(), kani::any(), kani::any(), kani::any());
    }

    let res = f.classify(&conns[..]);

    let mut total: u64 = 0;
    let mut n_conn: u64 = 0;
    let mut i = 0;
    while i < N {
        if connected[i] {
            total += bps[i];
            n_conn += 1;
        }
        i += 1;
    }
    assert!(res.per_link.len() == N, "one verdict per link");
    let bypass = total < 100_000 || n_conn == 0;
    let mut i = 0;
    while i < N {
        let v = &res.per_link[i];
        assert!(v.conn_id == i as u64 + 1, "verdicts are in link order");
        let (pw1, d1, s1, p1) = f.vh_memory(i as u64 + 1);
        if !connected[i] {
            assert!(!v.weak, "a disconnected link is never reported weak");
        }
        if bypass {
            assert!(!v.weak && v.reason == WeakReason::Bypassed, "under 100 kbit/s total nobody is weak");
            assert!(pw1.is_none() && d1.is_none() && s1.is_none() && p1.is_none(), "and the hysteresis memory is cleared");
        } else if connected[i] {
            let m = mem[i];
            let share = bps[i] * 1000 / total; // exact: integers below 2^37, the f64 quotient cannot cross an integer
            let enter = 250 / n_conn;
            let leave = 750 / n_conn;
            let (s1, p1, d1) = (s1.unwrap(), p1.unwrap(), d1.unwrap());
            // invariant preserved
            assert!(s1 < 15 && p1 <= 3, "INV: share-weak streak < 15 and probation <= 3");
            // delay reasons need the signal on this tick AND on the previous one
            if v.weak && (v.reason == WeakReason::HighRtt || v.reason == WeakReason::QueueBuilding) {
                assert!(m.delay >= 1, "a delay signal must persist for two consecutive ticks before it marks a link weak");
                assert!(d1 == m.delay.saturating_add(1), "the streak counts consecutive ticks");
                if v.reason == WeakReason::HighRtt {
                    assert!(rtt[i] as u32 > res.selected_delay_ms, "HighRtt means the RTT is over the selected tier now");
                } else {
                    assert!(qb[i], "QueueBuilding means the queue signal is up now");
                }
            }
            assert!(d1 == 0 || d1 == m.delay.saturating_add(1), "the delay streak either continues or restarts");
            if !(rtt[i] as u32 > res.selected_delay_ms) && !qb[i] {
                assert!(d1 == 0, "the delay streak restarts the moment the signal clears");
            }
            if v.weak && v.reason == WeakReason::NoTraffic {
                assert!(bps[i] == 0, "NoTraffic means no traffic");
            }
            // probation window
            if m.probation > 0 {
                assert!(!v.weak, "inside a probation window the link is reported not weak");
                assert!(p1 == m.probation - 1 && s1 == 0, "the window counts down");
            } else {
                let share_weak = v.weak && (v.reason == WeakReason::LowShare || v.reason == WeakReason::NoTraffic);
                if share_weak {
                    if m.streak == 14 {
                        assert!(s1 == 0 && p1 == 3, "the 15th consecutive share-weak verdict arms a three-tick probation");
                    } else {
                        assert!(s1 == m.streak + 1 && p1 == 0, "share-weak verdicts are counted");
                    }
                } else {
                    assert!(s1 == 0 && p1 == 0, "any other verdict restarts the count");
                }
                // hysteresis on the share
                if v.weak && v.reason == WeakReason::LowShare {
                    if m.prev_weak {
                        assert!(share < leave, "stays weak only below three quarters of fair share");
                    } else {
                        assert!(share < enter, "enters weak only below a quarter of fair share");
                    }
                }
                if m.prev_weak && !v.weak {
                    assert!(share >= leave, "leaves weak only on reaching three quarters of fair share");
                }
            }
            assert!(pw1 == Some(v.weak), "the verdict is remembered for the next tick's hysteresis");
        }
        i += 1;
    }
    kani::cover!(!bypass && res.per_link[0].weak && res.per_link[0].reason == WeakReason::HighRtt, "weak for sustained high RTT");
    kani::cover!(!bypass && res.per_link[0].weak && res.per_link[0].reason == WeakReason::QueueBuilding, "weak for a sustained queue signal");
    kani::cover!(!bypass && res.per_link[0].weak && res.per_link[0].reason == WeakReason::LowShare && mem[0].streak == 14, "probation armed");
    kani::cover!(!bypass && mem[0].probation == 2 && connected[0], "inside probation");
    kani::cover!(!bypass && mem[0].prev_weak && !res.per_link[0].weak && mem[0].probation == 0, "left weak through the leave threshold");
    kani::cover!(!bypass && !mem[0].present && res.per_link[0].weak, "a link without memory judged weak (entering threshold)");
    // instance-specific goals (a cover in a branch that is dead for this instantiation would read as vacuity)
    let bd = BOUNDARY;
    kani::cover!(bd || (bypass && connected[0]), "bypass floor");
    kani::cover!(!bd || (n_conn == 2 && bps[0] * 1000 / total == 125 && !res.per_link[0].weak && !mem[0].prev_weak), "exactly on the entering threshold: not weak");
    kani::cover!(!bd || (n_conn == 2 && bps[0] * 1000 / total == 124 && res.per_link[0].weak), "one permille under the entering threshold: weak");
    kani::cover!(!bd || (n_conn == 2 && bps[0] * 1000 / total == 375 && !res.per_link[0].weak && mem[0].prev_weak), "exactly on the leaving threshold: leaves");
    kani::cover!(!bd || (n_conn == 2 && bps[0] * 1000 / total == 374 && res.per_link[0].weak && mem[0].prev_weak), "one permille under the leaving threshold: stays");
    core::mem::forget(conns);
    core::mem::forget(f);
    core::mem::forget(res);
}

#[kani::proof]
#[kani::unwind(6)]
fn c17_classify_step_n2() {
    classify_step::<2, false>();
}

#[kani::proof]
#[kani::unwind(6)]
fn c17_classify_step_n2_thresholds() {
    classify_step::<2, true>();
}

#[kani::proof]
#[kani::unwind(6)]
fn c17_classify_step_n3() {
    classify_step::<3, false>();
}

/// Thorough: a 3-tick symbolic history from a FRESH filter (no memory), checked by monitors that look only at
/// inputs and verdicts (not at the filter's memory): a delay verdict needs the signal on this tick and the
/// previous one; a link is never weak while disconnected or under the floor; a LowShare verdict on a link that
/// was not weak on the previous tick needs a share under the entering threshold, and a link that was weak and is
/// not weak now (outside probation, which cannot start within 3 ticks) reached the leaving threshold.
#[kani::proof]
#[kani::unwind(6)]
fn c17_history_3() {
    const N: usize = 2;
    const T: usize = 3;
    let mut f = WeakLinkFilter::new();
    let mut prev_signal: [bool; N] = [false; N];
    let mut prev_weak: [bool; N] = [false; N];
    let mut prev_judged: [bool; N] = [false; N]; // link was connected and judged (not bypassed) on the previous tick
    let mut t = 0;
    while t < T {
        let bps: [u64; N] = core::array::from_fn(|_| grid_bps());
        let rtt: [u16; N] = core::array::from_fn(|_| grid_rtt());
        let connected: [bool; N] = core::array::from_fn(|_| kani::any());
        let conns: [SrtlaConnection; N] = core::array::from_fn(|i| {
            let mut c = SrtlaConnection::new_registering(i as u64 + 1, String::new(), std::net::IpAddr::V4(std::net::Ipv4Addr::LOCALHOST), 0);
            c.connected = connected[i];
            c.vh_bitrate_mut().current_bitrate_bps = bps[i] as f64;
            c.rtt.kalman_rtt = srtla_core::kalman::KalmanFilter::vh_from_parts(rtt[i] as f64, 0.0, [0.0; 4], rtt[i] != 0);
            c
        });
        let res = f.classify(&conns[..]);
        let mut total: u64 = 0;
        let mut n_conn: u64 = 0;
        let mut i = 0;
        while i < N {
            if connected[i] {
                total += bps[i];
                n_conn += 1;
            }
            i += 1;
        }
        let bypass = total < 100_000 || n_conn == 0;
        let mut i = 0;
        while i < N {
            let v = &res.per_link[i];
            let judged = connected[i] && !bypass;
            let signal = judged && rtt[i] as u32 > res.selected_delay_ms;
            if !judged {
                assert!(!v.weak, "never weak while disconnected or under the floor");
            } else {
                let share = bps[i] * 1000 / total;
                if v.weak && v.reason == WeakReason::HighRtt {
                    assert!(signal && prev_signal[i], "a delay verdict needs the signal on two consecutive ticks");
                }
                assert!(!(v.weak && v.reason == WeakReason::QueueBuilding), "no queue signal in this history");
                let was = prev_judged[i] && prev_weak[i];
                if v.weak && v.reason == WeakReason::LowShare {
                    assert!(share < if was { 750 / n_conn } else { 250 / n_conn }, "LowShare respects the enter / leave thresholds");
                }
                if was && !v.weak {
                    assert!(share >= 750 / n_conn, "leaving weak needs three quarters of fair share");
                }
            }
            prev_signal[i] = signal;
            prev_weak[i] = v.weak;
            prev_judged[i] = judged;
            i += 1;
        }
        if t == T - 1 {
            kani::cover!(res.per_link[0].weak && res.per_link[0].reason == WeakReason::HighRtt, "delay verdict after a sustained signal");
            kani::cover!(res.per_link[0].weak && res.per_link[0].reason == WeakReason::LowShare && prev_judged[0], "LowShare verdict");
        }
        core::mem::forget(conns);
        core::mem::forget(res);
        t += 1;
    }
    core::mem::forget(f);
}
