//! C01 – uplink path forwards every SRT datagram intact, once, in per-link order (core layer: the
//! per-link batch queue, its flush thresholds, the flush-time registration and the probe cadence).
use srtla_core::connection::batch_send::BatchRegime;
use srtla_core::connection::{BatchSender, SrtlaConnection};

use crate::util::*;

const MAXP: usize = 4; // payload bytes per datagram in these harnesses (the copy is length-generic)

#[derive(Clone, Copy)]
struct Pkt {
    len: usize,
    bytes: [u8; MAXP],
    seq: Option<u32>,
    t: u64,
}

fn any_pkt() -> Pkt {
    let len: usize = kani::any();
    kani::assume(len >= 1 && len <= MAXP);
    Pkt { len, bytes: kani::any(), seq: kani::any(), t: any_time() }
}

fn any_regime() -> BatchRegime {
    let k: u8 = kani::any();
    match k % 3 {
        0 => BatchRegime::LowActivity,
        1 => BatchRegime::Normal,
        _ => BatchRegime::HighLoad,
    }
}

fn ref_threshold(r: BatchRegime) -> usize {
    match r {
        BatchRegime::LowActivity => 4,
        BatchRegime::Normal => 16,
        BatchRegime::HighLoad => 32,
    }
}

/// FIFO integrity: whatever is queued comes out of `drain` exactly once, in order, byte for byte,
/// each datagram paired with its own sequence number and queue time; the queue is empty after.
/// The NUMBER of datagrams is concrete per instance (0, 1, 2, 3, 4, 5, 16, 17, 32, 33): with a
/// symbolic count every index into the std `Vec`s of the real queue becomes symbolic and CBMC did
/// not finish even for 3 datagrams; lengths, bytes, sequence numbers, times and regime stay
/// symbolic.
fn fifo_integrity<const N: usize, const REGIME: u8>() {
    let mut b = BatchSender::new();
    // the regime is concrete per instance too (0 low activity, 1 normal, 2 high load): with a
    // symbolic regime a change that makes the stored count depend on the threshold turns every queue
    // index symbolic again and the solver gives up instead of answering
    b.set_regime(match REGIME {
        0 => BatchRegime::LowActivity,
        1 => BatchRegime::Normal,
        _ => BatchRegime::HighLoad,
    });
    let pk: [Pkt; N] = core::array::from_fn(|_| any_pkt());
    let mut i = 0;
    while i < N {
        let full = b.queue_packet(&pk[i].bytes[..pk[i].len], pk[i].seq, pk[i].t);
        assert!(full == (i + 1 >= ref_threshold(b.regime())), "flush requested exactly at the regime's batch size (4 / 16 / 32)");
        assert!(b.queued_count() as usize == i + 1, "queue depth counts every accepted datagram");
        i += 1;
    }
    let (a, s, t) = b.vh_lens();
    assert!(a == N && s == N && t == N, "data, sequence and time queues stay aligned");
    let now = any_time();
    let out = b.drain(now);
    assert!(out.len() == N, "drain returns every queued datagram exactly once");
    assert!(!b.has_queued_packets() && b.queued_count() == 0, "queue empty after the flush");
    assert!(b.vh_last_flush_ms() == now, "flush time recorded");
    let mut k = 0;
    while k < N {
        let (data, seq, time) = &out[k];
        assert!(data.len() == pk[k].len, "datagram k keeps its length");
        let mut j = 0;
        while j < MAXP {
            if j < pk[k].len {
                assert!(data[j] == pk[k].bytes[j], "datagram k is byte-for-byte unchanged and in arrival order");
            }
            j += 1;
        }
        assert!(*seq == pk[k].seq && *time == pk[k].t, "datagram k keeps its own sequence number and queue time");
        k += 1;
    }
    // a second drain sends nothing (no duplicates)
    let again = b.drain(now);
    assert!(again.is_empty(), "nothing is sent twice");
    // reset drops what is still queued (the only accepted-but-unsent datagrams)
    if N > 0 {
        b.queue_packet(&pk[0].bytes[..pk[0].len], pk[0].seq, pk[0].t);
        b.reset();
        assert!(!b.has_queued_packets() && b.drain(now).is_empty(), "a link reset empties the queue");
    }
    core::mem::forget(out);
    core::mem::forget(b);
}

macro_rules! fifo_instance {
    ($name:ident, $n:expr, $regime:expr, $unwind:expr) => {
        #[kani::proof]
        #[kani::unwind($unwind)]
        fn $name() {
            fifo_integrity::<$n, $regime>();
        }
    };
}
fifo_instance!(c01_fifo_0_normal, 0, 1, 6);
fifo_instance!(c01_fifo_1_low, 1, 0, 6);
fifo_instance!(c01_fifo_2_normal, 2, 1, 6);
fifo_instance!(c01_fifo_4_low, 4, 0, 6);
fifo_instance!(c01_fifo_5_low, 5, 0, 7);
fifo_instance!(c01_fifo_5_high, 5, 2, 7);
fifo_instance!(c01_fifo_16_normal, 16, 1, 18);
fifo_instance!(c01_fifo_17_normal, 17, 1, 19);
fifo_instance!(c01_fifo_17_low, 17, 0, 19);
fifo_instance!(c01_fifo_32_high, 32, 2, 34);
fifo_instance!(c01_fifo_33_high, 33, 2, 35);
fifo_instance!(c01_fifo_33_normal, 33, 1, 35);

/// Flush predicates from an arbitrary depth/regime: size threshold and the 15 ms timer.
fn flush_predicates<const D: usize>() {
    let mut b = BatchSender::new();
    let r = any_regime();
    b.set_regime(r);
    let d: usize = D;
    let mut i = 0;
    while i < d {
        b.queue_packet(&[7u8], None, 0);
        i += 1;
    }
    let last = any_time();
    b.vh_set_last_flush_ms(last);
    let now = any_time();
    assert!(b.needs_time_flush(now) == (d > 0 && now.saturating_sub(last) >= 15), "timer flush iff non-empty and >= 15 ms since the last flush");
    assert!(b.has_queued_packets() == (d > 0), "has_queued_packets iff non-empty");
    // regime change takes effect on the very next datagram
    let r2 = any_regime();
    b.set_regime(r2);
    let full = b.queue_packet(&[9u8], Some(kani::any()), now);
    assert!(full == (d + 1 >= ref_threshold(r2)), "threshold of the CURRENT regime applies");
    assert!(b.queued_count() as usize == d + 1, "the datagram is accepted whatever the depth (asking for a flush never drops it)");
    assert!(ref_threshold(r2) <= 32, "no regime holds more than 32 datagrams before asking for a flush");
    kani::cover!(full || d < 3, "a flush request is reachable at this depth");
    core::mem::forget(b);
}

macro_rules! flush_instance {
    ($name:ident, $d:expr, $unwind:expr) => {
        #[kani::proof]
        #[kani::unwind($unwind)]
        fn $name() {
            flush_predicates::<$d>();
        }
    };
}
flush_instance!(c01_flush_predicates_d0, 0, 4);
flush_instance!(c01_flush_predicates_d3, 3, 6);
flush_instance!(c01_flush_predicates_d15, 15, 18);
flush_instance!(c01_flush_predicates_d20, 20, 23);
flush_instance!(c01_flush_predicates_d31, 31, 34);

#[kani::proof]
fn c01_regime_from_bitrate() {
    let bps: f64 = kani::any();
    let r = BatchRegime::from_bps(bps);
    if bps > 5_000_000.0 {
        assert!(matches!(r, BatchRegime::HighLoad), "> 5 Mbit/s: high load (32)");
    } else if bps <= 500_000.0 {
        assert!(matches!(r, BatchRegime::LowActivity), "<= 500 kbit/s: low activity (4)");
    } else {
        assert!(!matches!(r, BatchRegime::HighLoad), "otherwise normal (16); NaN falls back to normal");
    }
}

/// Flush-time registration: take_batch hands over exactly the queued datagrams, registers exactly
/// the data packets (those with a sequence number) as in-flight, and stamps last_sent.
#[kani::proof]
#[kani::unwind(6)]
fn c01_take_batch_registers() {
    let mut c = any_conn(1, SYM_INT);
    c.in_flight_packets = 0;
    let n: usize = 3;
    let pk: [Pkt; 3] = core::array::from_fn(|_| any_pkt());
    // distinct data sequence numbers (duplicates are C02's subject)
    let sq = |i: usize| pk[i].seq.map(|s| s & 0x7fff_ffff);
    kani::assume(sq(0).is_none() || sq(0) != sq(1));
    kani::assume(sq(0).is_none() || sq(0) != sq(2));
    kani::assume(sq(1).is_none() || sq(1) != sq(2));
    let sent0 = c.last_sent;
    let mut i = 0;
    let mut want = 0;
    while i < 3 {
        if i < n {
            c.queue_data_packet(&pk[i].bytes[..pk[i].len], sq(i), pk[i].t);
            if sq(i).is_some() {
                want += 1;
            }
        }
        i += 1;
    }
    assert!(c.in_flight_packets == 0, "queued-but-unflushed datagrams are not yet in flight");
    let now = any_now();
    let out = c.take_batch(now);
    assert!(out.len() == n, "the batch holds every queued datagram");
    assert!(c.in_flight_packets == want, "exactly the data packets are registered as in flight");
    let k: usize = kani::any();
    kani::assume(k < 3);
    if k < n {
        if let Some(s) = sq(k) {
            assert!(c.vh_packet_log().contains_key(&(s as i32)), "data packet k is outstanding under its own sequence number");
        }
        assert!(out[k].1 == sq(k), "batch entry k carries packet k's sequence number");
    }
    assert!(c.last_sent == Some(now), "send stamp set by a non-empty flush");
    let empty = c.take_batch(now + 1);
    assert!(empty.is_empty() && c.last_sent == Some(now) && c.in_flight_packets == want, "an empty flush sends and registers nothing");
    let _ = sent0;
    kani::cover!(want == 2, "a control packet between data packets");
    core::mem::forget(out);
    core::mem::forget(c);
}

/// Duplicate-probe cadence on a gated link: from any counter state exactly one call in every 100
/// is a probe.
#[kani::proof]
fn c01_probe_cadence_step() {
    let mut c = any_conn(1, SYM_INT);
    let k0 = *c.vh_stall_probe_counter();
    let due = c.stall_probe_due();
    let k1 = *c.vh_stall_probe_counter();
    assert!(k0 < 100 && k1 < 100, "counter invariant 0..100 preserved");
    assert!(due == (k0 == 99), "a probe is due exactly on the 100th routed data packet");
    assert!(k1 == if due { 0 } else { k0 + 1 }, "counter advances by one and restarts after a probe");
    core::mem::forget(c);
}
