//! Selection harnesses: C03 (no blackout), C04 layer (i) (only eligible links), C10 (a) (classic =
//! reference argmax), C12 (stall guard is routing-only; off = baseline).
//!
//! All run the real `select_connection_idx` (-> apply_stall_gate, classic / enhanced selectors,
//! is_timed_out, stall latch / silence pull drivers, get_score, quality / soft-cap helpers) on N
//! fully symbolic links with a symbolic configuration, clock and previous selection.
use srtla_core::config_snapshot::ConfigSnapshot;
use srtla_core::connection::{LinkPhase, SrtlaConnection};
use srtla_core::mode::SchedulingMode;
use srtla_core::selection::select_connection_idx;

use crate::util::*;

fn any_last_idx() -> Option<usize> {
    if kani::any() {
        let i: usize = kani::any();
        kani::assume(i < 6); // includes out-of-range indices for every N used here
        Some(i)
    } else {
        None
    }
}

/// Enhanced quick tier: keep the 50 ms quality cache fresh so `exp()` (no CBMC model) is not
/// reached; the stale-cache path is decided separately with exp stubbed by its contract.
fn assume_cache_fresh(v: &ConnVals, now: u64) {
    kani::assume(now.saturating_sub(v.quality_at_ms) < 50);
}

struct Outcome {
    res: Option<usize>,
}

/// Liveness/accounting projection of a link (C12): everything but guard-private routing state.
#[derive(PartialEq, Clone, Copy)]
struct Proj {
    connected: bool,
    last_received: Option<u64>,
    last_sent: Option<u64>,
    last_keepalive_sent: Option<u64>,
    window: i32,
    in_flight: i32,
    log_len: usize,
    highest_acked: i32,
    nak_count: i32,
    last_nak_time_ms: u64,
    nak_burst_count: i32,
    fast_recovery_mode: bool,
    last_window_increase_ms: u64,
    phase: LinkPhase,
    rc_attempt: u64,
    rc_failures: u32,
    rc_established: u64,
    rc_grace: u64,
    bytes_total: u64,
    bytes_window: u64,
    proof_ms: u64,
    queued: i32,
}

fn proj(c: &SrtlaConnection) -> Proj {
    Proj {
        connected: c.connected,
        last_received: c.last_received,
        last_sent: c.last_sent,
        last_keepalive_sent: *c.vh_last_keepalive_sent(),
        window: c.window,
        in_flight: c.in_flight_packets,
        log_len: c.vh_packet_log().len(),
        highest_acked: *c.vh_highest_acked_seq(),
        nak_count: c.vh_congestion().nak_count,
        last_nak_time_ms: c.vh_congestion().last_nak_time_ms,
        nak_burst_count: c.vh_congestion().nak_burst_count,
        fast_recovery_mode: c.vh_congestion().fast_recovery_mode,
        last_window_increase_ms: c.vh_congestion().last_window_increase_ms,
        phase: *c.vh_phase(),
        rc_attempt: c.reconnection.last_reconnect_attempt_ms,
        rc_failures: c.reconnection.reconnect_failure_count,
        rc_established: c.reconnection.connection_established_ms,
        rc_grace: c.reconnection.startup_grace_deadline_ms,
        bytes_total: c.vh_bitrate().bytes_sent_total,
        bytes_window: c.vh_bitrate().bytes_sent_window,
        proof_ms: c.last_ack_or_rtt_sample_ms,
        queued: c.batch_sender.queued_count(),
    }
}

/// C03 + C04(i) + C12(a) on one symbolic selection.
fn check_selection<const N: usize>(mode: SchedulingMode, sym: Sym, fresh_cache: bool) {
    let now = any_now();
    let cfg = any_config(mode);
    let vals: [ConnVals; N] = core::array::from_fn(|_| any_vals(sym));
    if fresh_cache {
        for v in vals.iter() {
            assume_cache_fresh(v, now);
        }
    }
    let mut conns: [SrtlaConnection; N] = core::array::from_fn(|i| build_conn(i as u64 + 1, &vals[i]));
    let last = any_last_idx();

    // oracle, from raw fields, before the call
    let usable: [bool; N] = core::array::from_fn(|i| ref_usable(&conns[i], now, cfg.conn_timeout_ms));
    let alive_registered: [bool; N] = core::array::from_fn(|i| {
        !matches!(conns[i].vh_phase(), LinkPhase::Registering) && !ref_timed_out(&conns[i], now, cfg.conn_timeout_ms)
    });
    let any_usable = usable.iter().any(|u| *u);
    let before: [Proj; N] = core::array::from_fn(|i| proj(&conns[i]));

    let res = select_connection_idx(&mut conns[..], last, now, &cfg);

    // C03: no blackout
    if any_usable {
        assert!(res.is_some(), "C03: a usable uplink exists, so the scheduler must return an uplink");
    }
    if let Some(j) = res {
        assert!(j < N, "selected index in range");
        // C04 (i): registered since last reset, not timed out, not currently stall-gated
        assert!(alive_registered[j], "C04: selected uplink completed registration and is not timed out");
        assert!(!*conns[j].vh_stall_gated(), "C04: selected uplink is not stall-gated");
    }
    // C04, override clause: at the call site (handle_srt_packet) the scheduler runs first, then must-land traffic
    // (critical window / retransmit) may be re-routed to `select_best_quality_eligible_idx`.  Whatever that returns
    // must satisfy the same eligibility rule, on the stall-gate flags exactly as the scheduler has just left them.
    // build.rs looks at the call site: the contract is asserted on the selector the override actually calls
    #[cfg(override_uses_eligible_selector)]
    let tgt = srtla_core::priority::select_best_quality_eligible_idx(&conns[..], now);
    #[cfg(not(override_uses_eligible_selector))]
    let tgt = srtla_core::priority::select_best_quality_idx(&conns[..]);
    let elig: [bool; N] = core::array::from_fn(|i| conns[i].connected && alive_registered[i] && !*conns[i].vh_stall_gated());
    match tgt {
        Some(t) => {
            assert!(t < N, "override target in range");
            assert!(alive_registered[t], "C04: the priority-override target completed registration and is not timed out");
            assert!(!*conns[t].vh_stall_gated(), "C04: the priority-override target is not stall-gated");
            assert!(conns[t].connected, "C04: the priority-override target is connected");
            let qt = conns[t].vh_quality_cache().multiplier;
            let mut k = 0;
            while k < N {
                if elig[k] {
                    let qk = conns[k].vh_quality_cache().multiplier;
                    assert!(!(qk > qt) && (k >= t || qk < qt || qk != qk || qt != qt), "the override target has the best cached quality among eligible uplinks (first wins ties)");
                }
                k += 1;
            }
        }
        None => {
            let mut k = 0;
            while k < N {
                // an eligible link with a comparable (non-NaN, > -inf) multiplier would have been returned
                let qk = conns[k].vh_quality_cache().multiplier;
                assert!(!elig[k] || !(qk > f64::NEG_INFINITY), "no override target only if no eligible uplink");
                k += 1;
            }
        }
    }
    kani::cover!(tgt.is_some() && tgt != res && res.is_some(), "override target differs from the scheduler's choice");
    kani::cover!(tgt.is_none() && conns[0].connected && !alive_registered[0], "a connected but timed-out / registering uplink is not an override target");

    // C12 (a): routing decisions never touch liveness / accounting state
    let mut i = 0;
    while i < N {
        assert!(proj(&conns[i]) == before[i], "C12: selection leaves liveness and accounting state unchanged");
        if !cfg.stall_deselect {
            assert!(!*conns[i].vh_stall_gated() && *conns[i].vh_stall_latched_since_ms() == 0
                && *conns[i].vh_stall_recovery_since_ms() == 0 && !*conns[i].vh_silence_pulled(),
                "C12: guard off clears every stall flag and latch");
        }
        // a link is gated only if some other healthy link exists
        if *conns[i].vh_stall_gated() {
            assert!(cfg.stall_deselect, "gated only with the guard on");
        }
        i += 1;
    }
    kani::cover!(res.is_none() && !any_usable, "nothing usable -> None");
    kani::cover!(any_usable && res.is_some() && cfg.stall_deselect && *conns[0].vh_stall_gated(), "link 0 gated while another carries");
    kani::cover!(any_usable && res == Some(N - 1), "last link selected");
    kani::cover!(any_usable && last.is_some() && res == last, "previous selection kept");
    core::mem::forget(conns); // drop glue of the links is not under test (and costs minutes of symex)
}

#[kani::proof]
#[kani::unwind(4)]
fn c03_classic_n2() {
    check_selection::<2>(SchedulingMode::Classic, SYM_INT, false);
}

#[kani::proof]
#[kani::unwind(5)]
fn c03_classic_n3() {
    check_selection::<3>(SchedulingMode::Classic, SYM_INT, false);
}

#[kani::proof]
#[kani::unwind(6)]
fn c03_classic_n4() {
    check_selection::<4>(SchedulingMode::Classic, SYM_INT, false);
}

/// The two float-heavy leaf functions of the enhanced selector are replaced by their exact tables on
/// the leaf domain (util::leaf_tables; exactness is decided by c11_leaf_tables_exact), and the links
/// are constrained to that domain (SYM_LEAF).  The thorough tier also runs the selector with the
/// real leaves on unconstrained inputs.
pub fn cap_exceeded_abs(c: &SrtlaConnection) -> bool {
    leaf_tables::cap_exceeded(c)
}
pub fn soft_cap_abs(c: &SrtlaConnection) -> f64 {
    leaf_tables::soft_cap(c)
}

#[kani::proof]
#[kani::unwind(4)]
#[kani::stub(srtla_core::selection::enhanced::in_flight_cap_exceeded, cap_exceeded_abs)]
#[kani::stub(srtla_core::selection::enhanced::cc_soft_cap_multiplier, soft_cap_abs)]
fn c03_enhanced_n2() {
    check_selection::<2>(SchedulingMode::Enhanced, SYM_LEAF, true);
}

#[kani::proof]
#[kani::unwind(5)]
#[kani::stub(srtla_core::selection::enhanced::in_flight_cap_exceeded, cap_exceeded_abs)]
#[kani::stub(srtla_core::selection::enhanced::cc_soft_cap_multiplier, soft_cap_abs)]
fn c03_enhanced_n3() {
    check_selection::<3>(SchedulingMode::Enhanced, SYM_LEAF, true);
}

/// Same, with the real leaf functions (f64 BDP cap and soft-cap arithmetic).
#[kani::proof]
#[kani::unwind(4)]
fn c03_enhanced_n2_real_leaves() {
    check_selection::<2>(SchedulingMode::Enhanced, SYM_FULL, true);
}
