//! C16 – per-link CC soft cap and loss latch stay bounded and honest.
//!
//! One tick of the real controller (`LinkCongestionState::tick` with `update_loss_ewma`,
//! `update_backoff_efficacy`, `pick_climb_mode`, `evict_expired`, `loss_permille`) from an ARBITRARY
//! controller state, with arbitrary measured throughput and clock.
use srtla_core::selection::link_cc::{CcState, ClimbMode, LinkCongestionState, VhCcParts};

use crate::util::*;

const MIN_T: u64 = 100_000;
const MAX_T: u64 = 200_000_000;

pub fn exp_contract(x: f64) -> f64 {
    let r: f64 = kani::any();
    if x <= 0.0 {
        kani::assume(r > 0.0 && r <= 1.0);
    } else {
        kani::assume(r >= 1.0);
    }
    r
}

fn any_state() -> CcState {
    let k: u8 = kani::any();
    match k % 5 {
        0 => CcState::Bootstrap,
        1 => CcState::Climbing,
        2 => CcState::Holding,
        3 => CcState::BackingOff,
        _ => CcState::Drain,
    }
}

fn any_parts() -> VhCcParts {
    let target: u64 = kani::any();
    kani::assume(target >= MIN_T && target <= MAX_T);
    let f = |lo: f64, hi: f64| -> f64 {
        let v: f64 = kani::any();
        kani::assume(v >= lo && v <= hi);
        v
    };
    let state = any_state();
    // rtt_ewma: 0 (no sample yet) or a positive finite value; Bootstrap <=> no RTT is what tick()
    // itself establishes, it is not assumed
    // RTT inputs from a grid (stated bound): the controller only looks at the RATIO ewma / min against
    // 1.5 and 2.0 and at var <= 0.1 x ewma; the grid hits every regime (none yet / flat / hold / drain,
    // stable / jittery) and removes a symbolic f64 division from a query that did not finish with it.
    let rk: u8 = kani::any();
    let rtt_ewma = match rk % 5 {
        0 => 0.0,   // no sample yet -> bootstrap
        1 => 10.0,  // inflation 1.0
        2 => 16.0,  // 1.6 -> hold
        3 => 20.0,  // exactly 2.0 -> drain
        _ => 45.0,  // 4.5 -> drain
    };
    let rtt_min = if kani::any() { f64::INFINITY } else { 10.0 };
    let loss_sample = if kani::any() {
        let sent: u32 = kani::any();
        let lost: u32 = kani::any();
        Some((any_time(), lost, sent))
    } else {
        None
    };
    VhCcParts {
        state,
        climb_mode: ClimbMode::Normal,
        target_bps: target,
        rtt_ewma_ms: rtt_ewma,
        rtt_var_ms: if kani::any() { 0.5 } else { 7.0 },
        rtt_min_ms: rtt_min,
        rtt_min_stamp_ms: any_time(),
        last_rtt_update_ms: any_time(),
        loss_sample,
        fast_recovery_ticks: {
            let v: u32 = kani::any();
            kani::assume(v <= 5); // INV: set to 5, only counted down
            v
        },
        loss_ewma: f(0.0, 1.0),
        loss_ewma_last_ms: any_time(),
        loss_high_since_ms: any_time(),
        loss_degraded: kani::any(),
        backoff_ticks: {
            let v: u32 = kani::any();
            kani::assume(v <= 3); // INV: judged and re-armed (or frozen) when it reaches 3
            v
        },
        backoff_entry_loss_pm: kani::any(),
        loss_uncongestive: kani::any(),
        uncongestive_ticks: {
            let v: u32 = kani::any();
            kani::assume(v < 30); // INV: the verdict expires at 30
            v
        },
    }
}

/// Target-rate rules of one tick.  LOSS: 0 = no loss sample in the window, 1 = one sample with
/// arbitrary counts; RTT: index into the RTT grid (one harness instance per combination keeps each
/// query to a single controller regime).
fn tick_target_rules<const LOSS: u8, const RTT: u8, const T0: u64>() {
    let mut p = any_parts();
    // T0 = 0: symbolic target (only for the regimes whose arithmetic does not touch it); otherwise the
    // pre-tick target is the concrete value T0 (the f64 multiply / divide chains on a fully symbolic
    // target did not finish in 30 min per regime; with a concrete target they fold to constants and
    // the measured throughput stays symbolic).  Grid: the floor, just above it, the initial estimate,
    // a large value and the ceiling.
    if T0 != 0 {
        p.target_bps = T0;
    }
    if LOSS == 0 {
        p.loss_sample = None;
    } else {
        kani::assume(p.loss_sample.is_some());
    }
    p.rtt_ewma_ms = match RTT {
        0 => 0.0,
        1 => 10.0,
        2 => 16.0,
        3 => 20.0,
        _ => 45.0,
    };
    p.rtt_min_ms = 10.0;
    let mut cc = LinkCongestionState::vh_from_parts(p);
    let observed: u64 = kani::any();
    kani::assume(observed <= 1 << 40); // measured throughput up to ~1 Tbit/s (stated bound)
    let now = any_now();
    let t0 = p.target_bps;
    cc.tick(observed, now);
    let t1 = cc.target_bps;

    assert!(t1 >= MIN_T && t1 <= MAX_T, "target stays within [100 kbit/s, 200 Mbit/s]");
    if p.rtt_ewma_ms == 0.0 {
        assert!(cc.state == CcState::Bootstrap && t1 == MIN_T, "no RTT sample yet: bootstrap, target at the floor");
    }
    // the measured rate after outlier clamping, restated: min(observed, 4 x max(target, 1 Mbit/s))
    let base = if t0 > 1_000_000 { t0 } else { 1_000_000 };
    let sane = if observed < 4 * base { observed } else { 4 * base };
    let seeding = p.rtt_ewma_ms != 0.0 && p.state == CcState::Bootstrap; // first tick after bootstrap
    if p.rtt_ewma_ms != 0.0 && !seeding {
        if t1 < t0 {
            let backoff = cc.state == CcState::BackingOff;
            let drain_entry = cc.state == CcState::Drain && p.state != CcState::Drain;
            assert!(backoff || drain_entry, "the target is lowered only by a loss back-off or once on entry to a drain");
            if backoff {
                assert!(t1 as u128 * 1000 + 1000 >= t0 as u128 * 850, "a back-off cuts to 85 %, not further");
                let delivered = if sane < t0 { sane } else { t0 };
                assert!(t1 >= delivered || t1 == MIN_T.max(delivered.min(MIN_T)), "a back-off never cuts below the rate the link is measurably delivering");
            } else {
                assert!(t1 as u128 * 1000 + 1000 >= t0 as u128 * 750, "drain entry cuts to 75 %, once");
            }
        }
        if cc.state == CcState::BackingOff {
            assert!(t1 <= t0, "a back-off never raises the target");
        }
        if t1 > t0 {
            assert!(t1 as u128 * 100 <= t0 as u128 * 106 + 100, "after seeding the target grows by at most 6 % per tick");
            assert!(t1 as u128 <= 2 * sane as u128 + 1, "and never beyond twice the measured rate");
        }
    }
    kani::cover!(LOSS == 0 || RTT != 1 || T0 == MIN_T || (t1 < t0 && cc.state == CcState::BackingOff), "back-off cut");
    kani::cover!(RTT != 3 || LOSS == 1 || T0 == MIN_T || (t1 < t0 && cc.state == CcState::Drain), "drain entry cut");
    kani::cover!(RTT != 1 || LOSS == 1 || T0 == MAX_T || (t1 > t0 && !seeding), "climb step");
    kani::cover!(RTT == 0 || T0 != MIN_T || (seeding && t1 > 1_000_000), "seeded from measured throughput");
    kani::cover!(RTT == 0 || T0 != MIN_T || (p.state != CcState::Bootstrap && t1 <= 106_000), "a target on the floor after bootstrap climbs like any other");
    core::mem::forget(cc);
}

macro_rules! c16_instance {
    ($name:ident, $loss:expr, $rtt:expr, $t0:expr) => {
        #[kani::proof]
        #[kani::unwind(4)]
        #[kani::stub(f64::exp, exp_contract)]
        fn $name() {
            tick_target_rules::<$loss, $rtt, $t0>();
        }
    };
}
c16_instance!(c16_target_noloss_bootstrap, 0, 0, 0);
c16_instance!(c16_target_noloss_hold, 0, 2, 0);
c16_instance!(c16_climb_floor, 0, 1, 100_000);
c16_instance!(c16_climb_117k, 0, 1, 117_000);
c16_instance!(c16_climb_1m, 0, 1, 1_000_000);
c16_instance!(c16_climb_150m, 0, 1, 150_000_000);
c16_instance!(c16_climb_ceiling, 0, 1, 200_000_000);
c16_instance!(c16_drain_floor, 0, 3, 100_000);
c16_instance!(c16_drain_117k, 0, 3, 117_000);
c16_instance!(c16_drain_1m, 0, 3, 1_000_000);
c16_instance!(c16_drain_ceiling, 0, 3, 200_000_000);
c16_instance!(c16_backoff_floor, 1, 1, 100_000);
c16_instance!(c16_backoff_117k, 1, 1, 117_000);
c16_instance!(c16_backoff_1m, 1, 1, 1_000_000);
c16_instance!(c16_backoff_150m, 1, 1, 150_000_000);
c16_instance!(c16_backoff_ceiling, 1, 1, 200_000_000);
c16_instance!(c16_lossy_drain_1m, 1, 4, 1_000_000);

/// Loss-degraded latch: latches only after the average has stayed above 0.55 for 4 s, clears only
/// once it falls below 0.25.
#[kani::proof]
#[kani::unwind(4)]
#[kani::stub(f64::exp, exp_contract)]
fn c16_loss_latch_rules() {
    let mut p = any_parts();
    kani::assume(p.rtt_ewma_ms != 0.0); // the latch is only driven on non-bootstrap ticks
    p.rtt_ewma_ms = 50.0;
    let mut cc = LinkCongestionState::vh_from_parts(p);
    let now = any_now();
    cc.tick(kani::any(), now);
    let (ewma, since, degraded, _, _) = cc.vh_loss_view();
    assert!(ewma >= 0.0 && ewma <= 1.0, "the loss average stays within [0, 1]");
    if !p.loss_degraded && degraded {
        assert!(ewma > 0.55, "latches only while the average is above 0.55");
        assert!(p.loss_high_since_ms != 0 && now.saturating_sub(p.loss_high_since_ms) >= 4000, "and only after it has been above for 4 s");
    }
    if p.loss_degraded && !degraded {
        assert!(ewma < 0.25, "clears only once the average falls below 0.25");
    }
    if ewma <= 0.55 {
        assert!(since == 0, "dropping to 0.55 or below restarts the 4 s clock");
    }
    kani::cover!(!p.loss_degraded && degraded, "latched");
    kani::cover!(p.loss_degraded && !degraded, "cleared");
    kani::cover!(p.loss_degraded && degraded && ewma < 0.55, "held in the hysteresis band");
    core::mem::forget(cc);
}
