#!/usr/bin/env python3
"""MIR -> SMT check of the NAK expansion cap (C15: "at most 1000 range-expanded NAK entries plus one
entry per 4 payload bytes", and no panic), for byte strings of ANY length.

Why a second engine: Kani/CBMC has to unroll the expansion loop 1000 times inside the list loop and
runs out of memory (DESIGN.md section 7).  Here the real function's MIR (regenerated from /repo's
working tree on every run with the nightly compiler) is translated basic block by basic block into
bit-vector terms, the loops are cut at their heads (Floyd-style cut points found from the CFG's back
edges) and z3 discharges, for every acyclic path between cut points,
    Inv(source) /\\ path condition  ==>  every MIR `assert` on the path holds   (panic freedom)
    Inv(source) /\\ path condition  ==>  Inv(target)                            (inductiveness)
with   Inv:  4 <= i <= len,  i % 4 == 0,  8 <= len < 2^63,  range_pushes <= 1000,  4*single_pushes + 4 <= i,
             out.len() == range_pushes + single_pushes
and at `return`:  out.len() <= 1000 + len/4.   One inductive step from an ARBITRARY state satisfying
Inv covers every number of loop iterations, hence every buffer length.

Modelled environment (the only stubs): the byte slice is an SMT array with a symbolic length;
`SmallVec::{new,len,push}` are an abstract length counter (only the COUNT matters for this clause;
element values are decided by the Kani harness c15_nak_decoder_16) with a ghost split into pushes
inside the inner cycle ("range-expanded") and the others; `get_packet_type`/`Option::ne` (the type
check in the prologue) return an unconstrained value (over-approximation); `from_be_bytes` is byte
concatenation, `wrapping_add` is bvadd.  Anything else in the MIR makes the translator give up
(exit 2, inconclusive) rather than guess.

Counterexamples of an inductive check may start from unreachable states, so a failed obligation is
confirmed NATIVELY: canonical stress frames (a range 0..=0xFFFFFFFF, two ranges, a range at the top
of the 31-bit space, ranges mixed with singles, ...) plus a frame built from the solver's model are
run through the real `parse_srt_nak` (tiny native binary, real smallvec); only an input for which
the real function panics or returns more than 1000 + len/4 entries is reported as a violation.

The translator itself is validated on every run: the same interpreter is executed CONCRETELY on
those frames and on the byte strings of the repo's own NAK tests, and its entry count must equal
the real function's.
"""
import json
import os
import re
import subprocess
import sys
import time

import z3

VERIF = os.path.dirname(os.path.dirname(os.path.abspath(__file__)))
REPO = os.environ.get("VERIF_REPO", "/repo")
SCRATCH = os.environ.get("VERIF_SCRATCH", "/var/tmp/verif-scratch")
CAP = 1000
FN = "parse_srt_nak"


class GiveUp(Exception):
    pass


# ----------------------------------------------------------------------------- MIR parsing

def dump_mir():
    env = dict(os.environ, CARGO_NET_OFFLINE="true", CARGO_TARGET_DIR=os.path.join(SCRATCH, "target", "mir"))
    lib = os.path.join(REPO, "crates/srtla-protocol/src/lib.rs")
    os.utime(lib, None)  # cargo prints nothing on a fresh build cache hit
    p = subprocess.run(["cargo", "+nightly", "rustc", "--offline", "-p", "srtla-protocol", "--lib", "--",
                        "-Zunpretty=mir", "-C", "debug-assertions=off", "-C", "overflow-checks=on"],
                       cwd=REPO, env=env, stdout=subprocess.PIPE, stderr=subprocess.PIPE, text=True)
    if p.returncode != 0 or FN not in p.stdout:
        raise GiveUp("could not dump MIR: " + p.stderr[-400:])
    return p.stdout


def parse_function(mir):
    m = re.search(r"^fn " + FN + r"\(_1: &\[u8\]\) -> SmallVec<u32, 4> \{\n(.*?)^\}", mir, re.S | re.M)
    if not m:
        raise GiveUp("function %s with the expected signature not found in MIR" % FN)
    body = m.group(1)
    types = {"_0": "smallvec", "_1": "slice"}
    for l in re.finditer(r"^\s*let (?:mut )?(_\d+): ([^;]+);", body, re.M):
        types[l.group(1)] = l.group(2).strip()
    debug = {}
    for l in re.finditer(r"^\s*debug (\w+) => (_\d+);", body, re.M):
        debug.setdefault(l.group(1), []).append(l.group(2))
    blocks = {}
    for b in re.finditer(r"^\s*(bb\d+)( \(cleanup\))?: \{\n(.*?)^\s*\}", body, re.S | re.M):
        lines = [x.strip() for x in b.group(3).splitlines() if x.strip()]
        lines = [x for x in lines if not x.startswith("StorageLive") and not x.startswith("StorageDead")]
        blocks[b.group(1)] = {"cleanup": bool(b.group(2)), "stmts": lines[:-1], "term": lines[-1]}
    return types, debug, blocks


def successors(term):
    if term.startswith("goto"):
        return [re.search(r"-> (bb\d+)", term).group(1)]
    if term.startswith("switchInt"):
        return re.findall(r": (bb\d+)", term)
    if term.startswith("assert"):
        return [re.search(r"success: (bb\d+)", term).group(1)]
    if term == "return;" or term.startswith("resume") or term.startswith("unreachable"):
        return []
    m = re.search(r"-> \[return: (bb\d+)", term)
    if m:
        return [m.group(1)]
    if term.startswith("drop"):
        return [re.search(r"return: (bb\d+)", term).group(1)]
    raise GiveUp("unknown terminator: " + term)


def loop_heads(blocks):
    """targets of back edges found by DFS from bb0 (non-cleanup blocks only)"""
    heads, color = set(), {}

    def dfs(b):
        color[b] = 1
        for s in successors(blocks[b]["term"]):
            if blocks[s]["cleanup"]:
                continue
            if color.get(s) == 1:
                heads.add(s)
            elif s not in color:
                dfs(s)
        color[b] = 2
    sys.setrecursionlimit(10000)
    dfs("bb0")
    return heads


def reach_without(blocks, start, banned):
    seen, todo = set(), [start]
    while todo:
        b = todo.pop()
        if b in seen or b in banned or blocks[b]["cleanup"]:
            continue
        seen.add(b)
        todo += successors(blocks[b]["term"])
    return seen


# ----------------------------------------------------------------------------- interpreter (symbolic or concrete)

W = {"usize": 64, "u32": 32, "u8": 8, "u16": 16, "u64": 64, "i32": 32}


class Val:
    """small tagged value: ('bv', term, width) | ('bool', term) | ('tuple', [vals]) | ('arr', [vals]) | ('opaque', name)"""


def bv(v, w, conc):
    return ("bv", (v & ((1 << w) - 1)) if conc else (z3.BitVecVal(v, w) if isinstance(v, int) else v), w)


class Interp:
    def __init__(self, types, concrete, buf=None):
        self.types, self.conc = types, concrete
        self.buf = buf  # concrete: bytes ; symbolic: z3 Array
        self.fresh_n = 0

    def fresh(self, sort, hint="nd"):
        self.fresh_n += 1
        if sort == "bool":
            return z3.Bool("%s_%d" % (hint, self.fresh_n))
        return z3.BitVec("%s_%d" % (hint, self.fresh_n), sort)

    # -- operands
    def operand(self, s, st):
        s = s.strip()
        m = re.fullmatch(r"(?:copy|move) (.+)", s)
        if m:
            return self.place(m.group(1).strip(), st)
        m = re.fullmatch(r"const (-?\d+)_(\w+)", s)
        if m:
            return bv(int(m.group(1)), W[m.group(2)], self.conc)
        m = re.fullmatch(r"const (true|false)", s)
        if m:
            return ("bool", (m.group(1) == "true") if self.conc else z3.BoolVal(m.group(1) == "true"))
        if s.startswith("const "):
            return ("opaque", s)
        raise GiveUp("operand: " + s)

    def place(self, p, st):
        m = re.fullmatch(r"\((_\d+)\.(\d+): [^)]+\)", p)
        if m:
            v = st[m.group(1)]
            if v[0] != "tuple":
                raise GiveUp("field of non-tuple " + p)
            return v[1][int(m.group(2))]
        m = re.fullmatch(r"\(\*_1\)\[(_\d+)\]", p)
        if m:
            idx = st[m.group(1)]
            if self.conc:
                return ("bv", self.buf[idx[1]], 8)
            return ("bv", z3.Select(self.buf, idx[1]), 8)
        if re.fullmatch(r"_\d+", p):
            if p not in st:
                raise GiveUp("read of unassigned local " + p)
            return st[p]
        raise GiveUp("place: " + p)

    # -- rvalues
    def rvalue(self, r, st):
        r = r.strip()
        m = re.fullmatch(r"(Lt|Le|Gt|Ge|Eq|Ne|BitAnd|BitOr|Add|Sub|AddWithOverflow|SubWithOverflow)\((.+), (.+)\)", r)
        if m:
            op, a, b = m.group(1), self.operand(m.group(2), st), self.operand(m.group(3), st)
            if a[0] != "bv" or b[0] != "bv" or a[2] != b[2]:
                raise GiveUp("binary op on " + r)
            x, y, w = a[1], b[1], a[2]
            c = self.conc
            if op in ("Lt", "Le", "Gt", "Ge", "Eq", "Ne"):
                if c:
                    res = {"Lt": x < y, "Le": x <= y, "Gt": x > y, "Ge": x >= y, "Eq": x == y, "Ne": x != y}[op]
                else:
                    res = {"Lt": z3.ULT(x, y), "Le": z3.ULE(x, y), "Gt": z3.UGT(x, y), "Ge": z3.UGE(x, y), "Eq": x == y, "Ne": x != y}[op]
                return ("bool", res)
            if op == "BitAnd":
                return ("bv", x & y, w)
            if op == "BitOr":
                return ("bv", x | y, w)
            if op in ("Add", "AddWithOverflow"):
                if c:
                    s = x + y
                    ov = s >= (1 << w)
                    s &= (1 << w) - 1
                else:
                    s = x + y
                    ov = z3.ULT(s, x)
                return ("bv", s, w) if op == "Add" else ("tuple", [("bv", s, w), ("bool", ov)])
            if op in ("Sub", "SubWithOverflow"):
                if c:
                    ov = x < y
                    s = (x - y) & ((1 << w) - 1)
                else:
                    s = x - y
                    ov = z3.ULT(x, y)
                return ("bv", s, w) if op == "Sub" else ("tuple", [("bv", s, w), ("bool", ov)])
        if r == "PtrMetadata(copy _1)":
            return st["__len"]
        m = re.fullmatch(r"\[(.+)\]", r)
        if m:
            return ("arr", [self.operand(x, st) for x in m.group(1).split(", ")])
        m = re.fullmatch(r"&(?:mut )?(_\d+)", r)
        if m:
            return ("ref", m.group(1))
        m = re.fullmatch(r"Not\((.+)\)", r)
        if m:
            a = self.operand(m.group(1), st)
            return ("bool", (not a[1]) if self.conc else z3.Not(a[1]))
        return self.operand(r, st)

    # -- calls
    def call(self, callee, args, st, ghost_range):
        c = self.conc
        if callee == "SmallVec::<u32, 4>::new":
            st["__cnt"], st["__cnt_r"], st["__cnt_s"] = bv(0, 64, c), bv(0, 64, c), bv(0, 64, c)
            return ("smallvec",)
        if callee == "SmallVec::<u32, 4>::len":
            return st["__cnt"]
        if callee == "SmallVec::<u32, 4>::push":
            one = 1 if c else z3.BitVecVal(1, 64)
            st["__cnt"] = ("bv", st["__cnt"][1] + one, 64)
            k = "__cnt_r" if ghost_range else "__cnt_s"
            st[k] = ("bv", st[k][1] + one, 64)
            return ("unit",)
        if callee == "core::num::<impl u32>::from_be_bytes":
            a = self.operand(args[0], st)
            if a[0] != "arr" or len(a[1]) != 4:
                raise GiveUp("from_be_bytes argument")
            b = [x[1] for x in a[1]]
            if c:
                return ("bv", (b[0] << 24) | (b[1] << 16) | (b[2] << 8) | b[3], 32)
            return ("bv", z3.Concat(b[0], b[1], b[2], b[3]), 32)
        if callee == "core::num::<impl u32>::wrapping_add":
            a, b = self.operand(args[0], st), self.operand(args[1], st)
            return ("bv", (a[1] + b[1]) & 0xFFFFFFFF if c else a[1] + b[1], 32)
        if callee == "get_packet_type":
            if c:
                return ("opt16", len(self.buf) >= 2, ((self.buf[0] << 8) | self.buf[1]) if len(self.buf) >= 2 else 0)
            return ("opaque", "packet_type")
        if callee == "<Option<u16> as PartialEq>::ne":
            if c:
                a = st[self.rvalue(args[0], st)[1]] if args[0].startswith("move _") else None
                if a is None or a[0] != "opt16":
                    raise GiveUp("ne on unknown operand")
                return ("bool", not (a[1] and a[2] == type_const()))
            return ("bool", self.fresh("bool", "type_ne"))  # over-approximation: any outcome of the type check
        raise GiveUp("unmodelled call: " + callee)


def type_const():
    """the packet-type constant the prologue compares with (concrete mode only), read from constants.rs"""
    name = "SRT_TYPE_NAK" if FN == "parse_srt_nak" else "SRTLA_TYPE_ACK"
    t = open(os.path.join(REPO, "crates/srtla-protocol/src/constants.rs")).read()
    m = re.search(r"pub const %s: u16 = (0x[0-9a-fA-F_]+|\d+);" % name, t)
    if not m:
        raise GiveUp("constant %s not found" % name)
    return int(m.group(1).replace("_", ""), 0)


def split_args(s):
    out, depth, cur = [], 0, ""
    for ch in s:
        if ch in "([":
            depth += 1
        if ch in ")]":
            depth -= 1
        if ch == "," and depth == 0:
            out.append(cur.strip())
            cur = ""
        else:
            cur += ch
    if cur.strip():
        out.append(cur.strip())
    return out


def exec_block(I, blocks, name, st, in_inner):
    """execute statements + terminator of one block; returns list of (successor, condition, obligations)"""
    b = blocks[name]
    for s in b["stmts"]:
        m = re.fullmatch(r"(_\d+) = (.+);", s)
        if not m:
            if s.startswith("nop") or s.startswith("FakeRead") or s.startswith("PlaceMention") or s.startswith("AscribeUserType") or s.startswith("Coverage") or s.startswith("ConstEvalCounter"):
                continue
            raise GiveUp("statement: " + s)
        st[m.group(1)] = I.rvalue(m.group(2), st)
    t = b["term"]
    T = (lambda x: x) if I.conc else (lambda x: x)
    if t.startswith("goto"):
        return [(successors(t)[0], None, [])]
    if t == "return;":
        return [("__return", None, [])]
    m = re.fullmatch(r"switchInt\((.+)\) -> \[(.+)\];", t)
    if m:
        v = I.operand(m.group(1), st)
        arms = m.group(2).split(", ")
        res, others = [], []
        for a in arms:
            k, tgt = a.split(": ")
            if k == "otherwise":
                continue
            kv = int(k)
            if v[0] == "bool":
                cond = (v[1] == bool(kv)) if I.conc else (v[1] if kv else z3.Not(v[1]))
            else:
                cond = (v[1] == kv)
            res.append((tgt, cond, []))
            others.append(cond)
        for a in arms:
            k, tgt = a.split(": ")
            if k == "otherwise":
                cond = (not any(others)) if I.conc else z3.Not(z3.Or(*others))
                res.append((tgt, cond, []))
        return res
    m = re.fullmatch(r"assert\((!?)(?:move |copy )(.+?), \".*\) -> \[success: (bb\d+), unwind.*", t)
    if m:
        v = I.place(m.group(2).strip(), st)
        cond = v[1]
        if m.group(1) == "!":
            cond = (not cond) if I.conc else z3.Not(cond)
        msg = re.search(r'"([^"]*)"', t).group(1)
        return [(m.group(3), None, [(cond, "%s: MIR assert `%s`" % (name, msg))])]
    m = re.fullmatch(r"(_\d+) = (.+?)\((.*)\) -> \[return: (bb\d+), unwind.*", t)
    if m:
        st[m.group(1)] = I.call(m.group(2), split_args(m.group(3)), st, in_inner)
        return [(m.group(4), None, [])]
    raise GiveUp("terminator: " + t)


# ----------------------------------------------------------------------------- concrete run (translator validation)

def run_concrete(types, blocks, inner_blocks, data):
    I = Interp(types, True, data)
    st = {"__len": ("bv", len(data), 64)}
    cur, steps = "bb0", 0
    while cur != "__return":
        steps += 1
        if steps > 2_000_000:
            raise GiveUp("concrete run does not terminate")
        outs = exec_block(I, blocks, cur, st, cur in inner_blocks)
        nxt = None
        for tgt, cond, obl in outs:
            for c, msg in obl:
                if not c:
                    return ("panic", msg)
            if cond is None or cond:
                nxt = tgt
                break
        if nxt is None:
            raise GiveUp("no successor taken")
        cur = nxt
    return ("ok", st["__cnt"][1] if "__cnt" in st else 0)


# ----------------------------------------------------------------------------- native oracle

def native_counts(frames):
    """runs the real parse_srt_nak natively on the frames; returns list of ('ok', n) / ('panic', msg)"""
    d = os.path.join(SCRATCH, "nakprobe-" + FN)
    os.makedirs(os.path.join(d, "src"), exist_ok=True)
    open(os.path.join(d, "Cargo.toml"), "w").write('[package]\nname = "nakprobe"\nversion = "0.0.0"\nedition = "2021"\n[workspace]\n[dependencies]\n'
                                                  'srtla-protocol = { path = "%s/crates/srtla-protocol" }\n' % REPO)
    open(os.path.join(d, "src", "main.rs"), "w").write('''use std::io::BufRead;
fn main() {
    for line in std::io::stdin().lock().lines() {
        let line = line.unwrap();
        let bytes: Vec<u8> = (0..line.len() / 2).map(|i| u8::from_str_radix(&line[2 * i..2 * i + 2], 16).unwrap()).collect();
        let r = std::panic::catch_unwind(|| srtla_protocol::FNNAME(&bytes).len());
        match r {
            Ok(n) => println!("ok {}", n),
            Err(_) => println!("panic"),
        }
    }
}
'''.replace("FNNAME", FN))
    shutil_copy_lock(d)
    env = dict(os.environ, CARGO_NET_OFFLINE="true", CARGO_TARGET_DIR=os.path.join(SCRATCH, "target", "nakprobe-" + FN))
    p = subprocess.run(["cargo", "build", "--offline", "--release", "-q"], cwd=d, env=env, stdout=subprocess.PIPE, stderr=subprocess.PIPE, text=True, timeout=900)
    exe = os.path.join(SCRATCH, "target", "nakprobe-" + FN, "release", "nakprobe")
    if p.returncode != 0 or not os.path.exists(exe):
        raise GiveUp("native probe failed to build: " + p.stderr[-500:])
    import resource

    def lim():
        resource.setrlimit(resource.RLIMIT_AS, (2 << 30, 2 << 30))
    out, todo = [], list(frames)
    while todo:
        # one process handles frames until it dies; a death (abort on allocation failure, kill on timeout) is
        # attributed to the frame it was working on and the rest continue in a fresh process
        inp = "\n".join(f.hex() for f in todo) + "\n"
        try:
            q = subprocess.run([exe], input=inp, stdout=subprocess.PIPE, stderr=subprocess.PIPE, text=True, timeout=20 + len(todo) // 50, preexec_fn=lim)
            lines, died = q.stdout.strip().splitlines(), ("abort", "process died with status %d (allocation failure / abort) " % q.returncode) if q.returncode != 0 else None
        except subprocess.TimeoutExpired as e:
            lines, died = (e.stdout or b"").decode().strip().splitlines() if isinstance(e.stdout, bytes) else (e.stdout or "").strip().splitlines(), ("timeout", "did not return within 20 s")
        for l in lines:
            out.append(("ok", int(l.split()[1])) if l.startswith("ok") else ("panic", ""))
        todo = todo[len(lines):]
        if todo:
            if died is None:
                raise GiveUp("native probe produced too few lines")
            out.append(died)
            todo = todo[1:]
    return out


def shutil_copy_lock(d):
    import shutil
    shutil.copy(os.path.join(REPO, "Cargo.lock"), os.path.join(d, "Cargo.lock"))


def ref_singles(f):
    """independent reference of the NAK grammar: number of single (non-range) entries"""
    if len(f) < 8:
        return 0
    if FN != "parse_srt_nak":
        return (len(f) - 4) // 4
    i, n = 4, 0
    while i + 3 < len(f):
        w = int.from_bytes(f[i:i + 4], "big")
        i += 4
        if w & 0x80000000:
            if i + 3 >= len(f):
                break
            i += 4
        else:
            n += 1
    return n


def is_witness(f, nat):
    """does the REAL function's behaviour on f break the clause?"""
    if nat[0] != "ok":
        return True  # panic, abort or no return
    return nat[1] > CAP + len(f) // 4 or nat[1] - ref_singles(f) > CAP


def be32(v):
    return bytes([(v >> 24) & 255, (v >> 16) & 255, (v >> 8) & 255, v & 255])


def stress_frames():
    h = bytes([0x80, 0x03, 0, 0]) if FN == "parse_srt_nak" else bytes([0x91, 0x00, 0, 0])
    R = lambda a, b: be32(a | 0x80000000) + be32(b)
    fr = [
        h + R(0, 0xFFFFFFFF),
        h + R(0x7FFFFFFF, 0xFFFFFFFF),
        h + R(0x7FFFFFFE, 0x7FFFFFFF),
        h + R(0, 999), h + R(0, 1000), h + R(0, 998),
        h + R(0, 1500) + R(5000, 9000),
        h + R(0, 400) + R(1000, 1800),
        h + R(0, 0xFFFFFFFF) + be32(7) + be32(8) + be32(9),
        h + be32(1) + R(10, 5000) + be32(2) + R(20000, 30000) + be32(3),
        h + R(5, 1), h + be32(0x80000001), h + be32(1) + be32(2)[:3],
        h + b"".join(be32(i) for i in range(300)),
        h + R(0, 700) + b"".join(be32(i) for i in range(200)) + R(0, 0xFFFFFFFF),
        bytes([0x80, 0x03]), h, h + be32(5), bytes([0x80, 0x02]) + bytes(10),
        h + R(0, 5000), h + R(100, 1100), h + be32(1) + R(0, 999) + R(2000, 2000) + be32(2),
        h + R(0xFFFFFF00, 0xFFFFFFFF) + R(0, 0xFFFFFFFF),
    ]
    short = [h + R(1, 3) + be32(9) + R(4, 6), h + be32(9) + be32(0x80000001) + be32(3) + be32(0x80000005), h + R(0, 0xFFFFFFFF) + R(0, 2)]
    for f in short:
        fr += [f[:k] for k in range(len(f) + 1)]
    fr.sort(key=lambda f: (0 if len(f) < 64 and b"\xff\xff\xff\xff" not in f else 1))  # cheap frames first
    return fr


def repo_test_frames():
    """byte strings of the repo's own NAK tests: every `create_nak`-like literal is hard to extract
    statically, so take the hex/array literals starting with 0x80, 0x03 found in the test sources."""
    frames = []
    for root in (os.path.join(REPO, "src/tests"), os.path.join(REPO, "crates/srtla-protocol/tests"), os.path.join(REPO, "crates/srtla-protocol/src")):
        for dp, _, fs in os.walk(root):
            for f in fs:
                if not f.endswith(".rs"):
                    continue
                t = open(os.path.join(dp, f), errors="replace").read()
                for m in re.finditer(r"\[\s*(0x80,\s*0x03(?:,\s*(?:0x[0-9a-fA-F]{1,2}|\d{1,3}))+)\s*,?\s*\]", t):
                    try:
                        frames.append(bytes(int(x.strip(), 0) for x in m.group(1).split(",") if x.strip()))
                    except ValueError:
                        pass
    return frames[:40]


# ----------------------------------------------------------------------------- the inductive check

def main():
    global FN
    if "--fn" in sys.argv:
        FN = sys.argv[sys.argv.index("--fn") + 1]
    if "--replay" in sys.argv:
        txt = open(sys.argv[sys.argv.index("--replay") + 1]).read()
        FN = re.search(r"# C15: real (\w+) violates", txt).group(1)
        frames = [bytes.fromhex(h) for h in re.findall(r"^frame_hex=([0-9a-f]*)", txt, re.M)]
        rep = 0
        for f, nat in zip(frames, native_counts(frames)):
            w = is_witness(f, nat)
            rep += w
            print("%s(%s%s) -> %s, %d single entries by the reference grammar, bound %d range-expanded + 1 per 4 bytes: %s" % (
                FN, f.hex()[:80], "..." if len(f) > 40 else "", nat, ref_singles(f), CAP, "VIOLATES" if w else "ok"))
        return 1 if rep else 0
    t0 = time.time()
    tier = "quick"
    out_json = None
    args = sys.argv[1:]
    if "--json" in args:
        out_json = args[args.index("--json") + 1]
    mir = dump_mir()
    types, debug, blocks = parse_function(mir)
    if "i" not in debug or "out" not in debug:
        raise GiveUp("debug names `i` / `out` not found (function restructured)")
    i_loc = debug["i"][0]
    heads = loop_heads(blocks)
    want_loops = 2 if FN == "parse_srt_nak" else 1
    if len(heads) != want_loops:
        raise GiveUp("expected exactly %d loops, found %d" % (want_loops, len(heads)))
    # outer head = the one from which the other is reachable without returning to itself first ... simpler:
    # the inner head is the one that cannot reach the other head without passing through... use dominance by DFS order
    order = []

    def dfs(b, seen):
        if b in seen or blocks[b]["cleanup"]:
            return
        seen.add(b)
        order.append(b)
        for s in successors(blocks[b]["term"]):
            dfs(s, seen)
    dfs("bb0", set())
    outer = min(heads, key=order.index)
    inner = max(heads, key=order.index) if len(heads) == 2 else None
    # blocks of the inner cycle: reachable from inner head without passing the outer head, and able to come back
    inner_blocks = set()
    if inner is not None:
        fwd = reach_without(blocks, inner, {outer})
        inner_blocks = {b for b in fwd if inner in set().union(*[reach_without(blocks, s, {outer}) for s in successors(blocks[b]["term"]) if not blocks[s]["cleanup"]] or [set()])}
        inner_blocks.add(inner)

    # ---- translator validation on concrete frames
    frames = stress_frames() + (repo_test_frames() if FN == "parse_srt_nak" else [])
    native = native_counts(frames)
    validated = 0
    witnesses = []
    for f, nat in zip(frames, native):
        if is_witness(f, nat):
            witnesses.append((f, nat))
        if nat[0] in ("abort", "timeout"):
            continue
        mine = run_concrete(types, blocks, inner_blocks, f)
        if mine[0] != nat[0] or (mine[0] == "ok" and mine[1] != nat[1]):
            raise GiveUp("translator disagrees with the real function on %s: encoding %s, real %s" % (f.hex()[:60], mine, nat))
        validated += 1

    # ---- symbolic cut-point verification
    buf = z3.Array("buf", z3.BitVecSort(64), z3.BitVecSort(8))
    LEN = z3.BitVec("len", 64)
    I = Interp(types, False, buf)
    cuts = {outer, inner} - {None}
    obligations, failed, paths = 0, [], 0
    solver_s = 0.0

    def inv(st, at):
        i = st[i_loc][1]
        c, cr, cs = st["__cnt"][1], st["__cnt_r"][1], st["__cnt_s"][1]
        base = [z3.UGE(LEN, 8), z3.ULT(LEN, z3.BitVecVal(1 << 63, 64)), z3.UGE(i, 4), z3.ULE(i, LEN), (i & 3) == 0,
                z3.ULE(cr, CAP), c == cr + cs, z3.ULE(cs, z3.BitVecVal(1 << 61, 64)), z3.ULE(cs * 4 + 4, i)]
        return z3.And(*base)

    def arbitrary_state(tag):
        st = {"__len": ("bv", LEN, 64)}
        for loc, ty in types.items():
            if ty in W:
                st[loc] = ("bv", z3.BitVec("%s_%s" % (loc, tag), W[ty]), W[ty])
            elif ty == "bool":
                st[loc] = ("bool", z3.Bool("%s_%s" % (loc, tag)))
            elif "SmallVec<" in ty and not ty.startswith("&"):
                st[loc] = ("smallvec",)
        for g in ("__cnt", "__cnt_r", "__cnt_s"):
            st[g] = ("bv", z3.BitVec("%s_%s" % (g, tag), 64), 64)
        st["_3"] = ("bv", LEN, 64) if "_3" in types else st.get("_3")
        return st

    def check(premises, goal, what):
        nonlocal obligations, solver_s
        obligations += 1
        s = z3.Solver()
        s.set("timeout", 120000)
        s.add(*premises)
        s.add(z3.Not(goal))
        t = time.time()
        r = s.check()
        solver_s += time.time() - t
        if CROSS:
            # second opinion from cvc5 on the same SMT-LIB2 text
            q = subprocess.run(["cvc5", "--lang", "smt2", "--tlimit=120000"], input="(set-logic ALL)\n" + s.to_smt2(), stdout=subprocess.PIPE, stderr=subprocess.STDOUT, text=True)
            ans = q.stdout.strip().splitlines()[-1] if q.stdout.strip() else "?"
            if "(error" in q.stdout or ans not in ("sat", "unsat") or ans != str(r):
                raise GiveUp("z3 and cvc5 disagree or cvc5 failed on `%s`: z3=%s cvc5=%s" % (what, r, q.stdout.strip()[-200:]))
            cross[0] += 1
        if r == z3.unsat:
            return
        if r == z3.unknown:
            raise GiveUp("solver gave up on: " + what)
        # prefer a small frame as the counterexample
        s.push()
        s.add(z3.ULE(LEN, 64))
        if s.check() != z3.sat:
            s.pop()
            s.check()
        failed.append((what, s.model(), cur_i[0]))

    cur_i = [None]
    cross = [0]
    CROSS = "--cross" in sys.argv

    def explore(start, st, premises):
        nonlocal paths
        cur_i[0] = st[i_loc][1] if i_loc in st else None
        todo = [(start, dict(st), list(premises), 0, True)]
        while todo:
            cur, st, prem, depth, first = todo.pop()
            if depth > 200:
                raise GiveUp("path too long")
            if cur == "__return":
                paths += 1
                c = st["__cnt"][1] if "__cnt" in st else z3.BitVecVal(0, 64)
                check(prem, z3.ULE(c, CAP + z3.LShR(LEN, 2)), "at return: out.len() <= 1000 + len/4")
                continue
            if cur in cuts and not first:
                paths += 1
                check(prem, inv(st, cur), "invariant re-established at loop head %s" % cur)
                continue
            for tgt, cond, obl in exec_block(I, blocks, cur, st, cur in inner_blocks):
                p2 = list(prem)
                for c, msg in obl:
                    check(p2, c, "no panic: " + msg)
                    p2.append(c)
                if cond is not None:
                    p2.append(cond)
                s = z3.Solver()
                s.add(*p2)
                if s.check() == z3.unsat:
                    continue
                todo.append((tgt, dict(st), p2, depth + 1, False))

    # entry
    st0 = {"__len": ("bv", LEN, 64)}
    explore("bb0", st0, [z3.ULT(LEN, z3.BitVecVal(1 << 63, 64))])
    # from each cut point, an arbitrary state satisfying the invariant; len is what the prologue stored
    for h in sorted(cuts):
        st = arbitrary_state(h)
        # the local holding the slice length was assigned in the prologue
        for loc, ty in types.items():
            pass
        lens = [l for l, v in st.items() if False]
        stl = dict(st)
        # find the local assigned from PtrMetadata in bb0
        for s_ in blocks["bb0"]["stmts"]:
            m = re.fullmatch(r"(_\d+) = PtrMetadata\(copy _1\);", s_)
            if m:
                stl[m.group(1)] = ("bv", LEN, 64)
        explore(h, stl, [inv(stl, h)])

    wall = time.time() - t0
    verdict = "holds"
    replay = None
    if failed:
        # confirm natively
        extra = []
        for what, model, i_term in failed:
            try:
                L = model.eval(LEN, model_completion=True).as_long()
                if 8 <= L <= 4096:
                    fb = bytearray(model.eval(z3.Select(buf, z3.BitVecVal(k, 64)), model_completion=True).as_long() for k in range(L))
                    extra.append(bytes(fb))
                    # the pre-state of an inductive step need not be reachable: rebuild a whole frame that reaches
                    # offset i by a NAK header followed by single entries, then the model's bytes from i on
                    if i_term is not None:
                        i0 = model.eval(i_term, model_completion=True).as_long()
                        if 4 <= i0 <= L:
                            fb[0:4] = bytes([0x80, 0x03, 0, 0])
                            for k in range(4, i0):
                                fb[k] = 0
                            extra.append(bytes(fb))
            except Exception:
                pass
        if extra:
            nat2 = native_counts(extra)
            for f, nat in zip(extra, nat2):
                if is_witness(f, nat):
                    witnesses.append((f, nat))
        if witnesses:
            verdict = "violated"
            os.makedirs(os.path.join(VERIF, "replays"), exist_ok=True)
            replay = os.path.join(VERIF, "replays", "C15-smt-%s.txt" % FN)
            with open(replay, "w") as f:
                f.write("# C15: real %s violates 'at most 1000 range-expanded entries plus one per 4 bytes, no panic'\n" % FN)
                f.write("# failed obligations: %s\n" % "; ".join(sorted(set(w[0] for w in failed))))
                for fr, nat in witnesses:
                    f.write("frame_hex=%s real_result=%s bound=%d\n" % (fr.hex()[:4000], nat, CAP + len(fr) // 4))
                f.write("# re-run: echo <frame_hex> | cargo run --release (crate %s/nakprobe) or call srtla_protocol::parse_srt_nak on the bytes\n" % SCRATCH)
        else:
            verdict = "inconclusive"
    elif witnesses:
        verdict = "violated"  # cannot happen if the VCs hold, kept for safety
    res = {"verdict": verdict, "obligations": obligations, "paths": paths, "solver_s": round(solver_s, 3), "wall_s": round(wall, 2),
           "translator_validated_on_frames": validated, "loop_heads": sorted(cuts), "inner_cycle_blocks": sorted(inner_blocks),
           "failed": sorted(set(w[0] for w in failed)), "replay": replay,
           "mir_blocks": len(blocks), "cross_checked_with_cvc5": cross[0]}
    if out_json:
        json.dump(res, open(out_json, "w"), indent=1)
    print(json.dumps(res))
    return {"holds": 0, "violated": 1, "inconclusive": 2}[verdict]


def fallback(reason):
    """The translator could not encode the (changed) function, so the solver decides nothing.  The native
    confirmation stage is still run: if the REAL function breaks the clause on one of the stress frames, that is a
    real, replayable violation and is reported as such (flagged as found outside the solver); otherwise exit 2."""
    out_json = sys.argv[sys.argv.index("--json") + 1] if "--json" in sys.argv else None
    res = {"verdict": "inconclusive", "why": reason}
    rc = 2
    try:
        frames = stress_frames()
        wit = [(f, nat) for f, nat in zip(frames, native_counts(frames)) if is_witness(f, nat)]
    except GiveUp as e2:
        wit = []
        res["why"] += "; native stage: " + str(e2)
    if wit:
        os.makedirs(os.path.join(VERIF, "replays"), exist_ok=True)
        replay = os.path.join(VERIF, "replays", "C15-smt-%s.txt" % FN)
        with open(replay, "w") as f:
            f.write("# C15: real %s violates 'at most 1000 range-expanded entries plus one per 4 bytes, no panic'\n" % FN)
            f.write("# found by the NATIVE confirmation stage on its stress frames; the MIR->SMT translator gave up on this tree (%s), so no VC was decided\n" % reason.replace("\n", " "))
            for fr, nat in wit:
                f.write("frame_hex=%s real_result=%s bound=%d\n" % (fr.hex()[:4000], nat, CAP + len(fr) // 4))
        res = {"verdict": "violated", "obligations": 0, "paths": 0, "solver_s": 0.0, "failed": ["native stress frame breaks the clause (translator gave up: %s)" % reason[:200]],
               "replay": replay, "mir_blocks": 0, "translator_validated_on_frames": 0, "decided_by": "native confirmation stage, not the solver"}
        rc = 1
    if out_json:
        json.dump(res, open(out_json, "w"), indent=1)
    print(json.dumps(res))
    return rc


if __name__ == "__main__":
    try:
        sys.exit(main())
    except GiveUp as e:
        sys.exit(fallback(str(e)))
