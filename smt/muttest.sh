#!/bin/bash
# self-test of smt/nakcap.py on throw-away mutants of parse_srt_nak (scratch worktree, removed afterwards)
WT=/var/tmp/nakwt-$$; git -C /repo worktree add -q --detach $WT HEAD
F=$WT/crates/srtla-protocol/src/parsers.rs
try(){ desc="$1"; want="$2"; shift 2; git -C $WT checkout -q -- .; sed -i "$@" $F; VERIF_REPO=$WT timeout 900 python3-vt /verif/smt/nakcap.py > /var/tmp/nakmut.out 2>&1; rc=$?; echo "== $desc: exit=$rc (want $want) $(tail -1 /var/tmp/nakmut.out | python3 -c 'import sys,json; d=json.loads(sys.stdin.read()); print(d.get("verdict"), d.get("failed"), d.get("why",""))')"; }
try "cap 2000" 1 '98s/1000/2000/'
try "cap <=" 1 '98s/< 1000/<= 1000/'
try "no cap" 1 '98s/ \&\& out.len() < 1000//'
try "inner bounds i+2" 1 '92s/i + 3 >= buf.len()/i + 2 >= buf.len()/'
try "outer guard i+2" 1 '87s/i + 3 < buf.len()/i + 2 < buf.len()/'
try "benign: cap 500" 0 '98s/1000/500/'
try "benign: stricter outer guard" 0 '87s/i + 3 < buf.len()/i + 4 < buf.len()/'
git -C /repo worktree remove --force $WT
