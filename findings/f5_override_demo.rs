//! Demonstration for finding F5 (C04, also C10 "every packet kind"): the keyframe-window /
//! SRT-retransmit priority override in `handle_srt_packet` takes whatever
//! `select_best_quality_idx` returns - the best cached quality multiplier among links that are
//! `connected && is_schedulable()` - WITHOUT the eligibility filter the schedulers apply: a link
//! that is timed out (silent for longer than the connection timeout, not yet torn down by the 1 s
//! housekeeping pass) or currently stall-gated can be chosen, and with equal multipliers (always
//! the case in classic mode, where every cached multiplier stays 1.0) the LOWEST-NUMBERED such
//! link wins.  Every retransmit-flagged data packet and every data packet inside a critical
//! window is then routed to it, although the scheduler itself had just refused that link.
//!
//! Both tests FAIL on the tree before the "fix:" commit and PASS after it (each starts with a control
//! assertion showing that the scheduler itself refuses link 0).  In enhanced mode the same happens once
//! the dead link's cached multiplier (left over from when it was healthy) exceeds the survivor's; that
//! half of the repair - the eligibility filter in `select_best_quality_eligible_idx` - is decided by the
//! Kani harness c04::c04_override_target_eligible_*.
//!
//! Placed at src/sender/f5_demo.rs with `#[cfg(test)] mod f5_demo;` in src/sender/mod.rs;
//! run: cargo nextest run -p srtla_send --offline f5_demo
use std::net::SocketAddr;

use srtla_core::mode::SchedulingMode;
use srtla_core::priority::CriticalWindow;
use srtla_core::utils::now_ms;

use super::packet_handler::handle_srt_packet;
use super::{ConnIoMap, SequenceTracker};
use crate::config::ConfigSnapshot;
use crate::test_helpers::create_test_connections;

fn data_packet(seq: u32, retransmit: bool) -> [u8; 32] {
    let mut b = [0u8; 32];
    b[0..4].copy_from_slice(&seq.to_be_bytes()); // top bit clear = SRT data
    if retransmit {
        b[4] |= 0x04; // R bit
    }
    b
}

async fn route(
    conns: &mut [srtla_core::connection::SrtlaConnection],
    cfg: &ConfigSnapshot,
    pkt: &mut [u8],
    cw: &CriticalWindow,
) -> Option<usize> {
    let conn_io: ConnIoMap = ConnIoMap::new();
    let mut last_sel = None;
    let mut tracker = SequenceTracker::new();
    let mut client = None;
    let src: SocketAddr = "127.0.0.1:5000".parse().unwrap();
    let n = pkt.len();
    handle_srt_packet(Ok((n, src)), pkt, conns, &conn_io, &mut last_sel, &mut tracker, &mut client, true, cfg, cw).await;
    last_sel
}

fn classic() -> ConfigSnapshot {
    ConfigSnapshot { mode: SchedulingMode::Classic, quality_enabled: false, ..ConfigSnapshot::default() }
}

#[tokio::test]
async fn retransmit_is_not_routed_to_a_timed_out_link() {
    let mut conns = create_test_connections(2).await;
    let now = now_ms();
    let cfg = classic();
    // link 0 has been silent for longer than the connection timeout; link 1 is healthy
    conns[0].last_received = Some(now.saturating_sub(cfg.conn_timeout_ms + 5_000));
    conns[1].last_received = Some(now);
    assert!(conns[0].is_timed_out(now_ms()) && !conns[1].is_timed_out(now_ms()));
    let cw = CriticalWindow::new();

    // control: ordinary data goes to the healthy link
    let mut p = data_packet(1, false);
    assert_eq!(route(&mut conns, &cfg, &mut p, &cw).await, Some(1));
    // a retransmission of the same stream must also avoid the timed-out link
    let mut p = data_packet(2, true);
    let chosen = route(&mut conns, &cfg, &mut p, &cw).await;
    assert_eq!(chosen, Some(1), "C04: the retransmit override routed the unique copy to a TIMED-OUT uplink");
}

#[tokio::test]
async fn critical_window_data_is_not_routed_to_a_stall_gated_link() {
    use crate::config::{STALL_ACK_STALE_MS, STALL_MIN_IN_FLIGHT_PACKETS};
    let mut conns = create_test_connections(2).await;
    let now = now_ms();
    let cfg = ConfigSnapshot { mode: SchedulingMode::Classic, quality_enabled: false, stall_deselect: true, ..ConfigSnapshot::default() };
    // link 0: loaded and without delivery proof for longer than the staleness window -> stall-gated
    conns[0].in_flight_packets = STALL_MIN_IN_FLIGHT_PACKETS;
    conns[0].last_ack_or_rtt_sample_ms = now.saturating_sub(STALL_ACK_STALE_MS + 1000);
    conns[0].last_received = Some(now);
    conns[1].in_flight_packets = STALL_MIN_IN_FLIGHT_PACKETS * 2;
    conns[1].last_ack_or_rtt_sample_ms = now;
    conns[1].last_received = Some(now);
    let cw = CriticalWindow::new();

    let mut p = data_packet(1, false);
    assert_eq!(route(&mut conns, &cfg, &mut p, &cw).await, Some(1), "control: the scheduler gates link 0");
    assert!(conns[0].is_stall_gated());
    cw.extend_to(now_ms() + 10_000); // the encoder announces a keyframe
    let mut p = data_packet(2, false);
    let chosen = route(&mut conns, &cfg, &mut p, &cw).await;
    assert!(conns[0].is_stall_gated());
    assert_eq!(chosen, Some(1), "C04: the critical-window override routed the unique copy to a STALL-GATED uplink");
}
