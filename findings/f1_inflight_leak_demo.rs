// Demonstration for finding F1 (C02): a sequence number (re)sent at or below the cumulative-ACK
// high-water mark (late SRT retransmission after the ACK passed it) was never retired by any later
// cumulative ACK: handle_srt_ack ignores ACKs <= the mark and its <=64 fast path only removes
// (old mark, ack], so the packet stayed in packet_log and in_flight_packets leaked by one until an
// SRTLA ACK for it or a link reset.
//
// Run: copy to /repo/crates/srtla-core/tests/f1_demo.rs and
//      cargo test --offline -p srtla-core --features test-internals --test f1_demo
// Fails on the tree before the "fix:" commit, passes after it.
use srtla_core::test_helpers::create_test_connections;
use srtla_core::utils::now_ms;

#[test]
fn late_retransmission_is_retired_by_the_next_cumulative_ack() {
    let rt = tokio::runtime::Runtime::new().unwrap();
    let mut conns = rt.block_on(create_test_connections(1));
    let c = &mut conns[0];
    let now = now_ms();
    for s in 1..=10 {
        c.register_packet(s, now);
    }
    c.handle_srt_ack(10, now);
    assert_eq!(c.in_flight_packets, 0);
    // SRT retransmits 7 (its NAK was already on the way when the ACK passed it)
    c.register_packet(7, now);
    assert_eq!(c.in_flight_packets, 1);
    c.register_packet(11, now);
    c.register_packet(12, now);
    // the next cumulative ACK is at/beyond 7, 11 and 12: all three are retired
    c.handle_srt_ack(12, now);
    assert_eq!(c.in_flight_packets, 0, "in-flight leaked: packet 7 was never retired");
    // and a duplicate ACK stays a no-op
    c.handle_srt_ack(12, now);
    assert_eq!(c.in_flight_packets, 0);
}
