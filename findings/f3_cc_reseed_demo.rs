// Demonstration for finding F3 (C16): the CC target is "seeded from measured throughput" whenever it
// EQUALS the floor (100 kbit/s), not only on the first tick after bootstrap.  A target that a loss
// back-off has walked down to the floor is therefore re-seeded on the next tick to
// max(measured, 1 Mbit/s): a x10 jump (far more than 6 % per tick, and far beyond twice the measured
// rate) on a link the controller has just spent 15 ticks cutting.
//
// Public API only (record_rtt / record_loss / tick).  Run: copy to
// /repo/crates/srtla-core/tests/f3_demo.rs and `cargo test --offline -p srtla-core --test f3_demo`.
// Fails on the tree before the "fix:" commit, passes after it.
use srtla_core::selection::link_cc::{CcState, LinkCongestionState};

#[test]
fn a_target_backed_off_to_the_floor_is_not_reseeded() {
    let mut cc = LinkCongestionState::default();
    let mut now = 1_000u64;
    cc.record_rtt(50.0, now);
    cc.tick(1_000_000, now); // first tick after bootstrap: legitimate seeding
    assert!(cc.target_bps >= 1_000_000);

    // Congestive loss that keeps responding to the cuts (so the efficacy test keeps the back-off
    // armed), on a link delivering half its cap: the controller walks the cap down 15 % per tick.
    let mut loss_pm: u32 = 900;
    let mut ticks = 0;
    while cc.target_bps > 100_000 && ticks < 200 {
        now += 1_000;
        cc.record_rtt(50.0, now);
        cc.record_loss(1_000, loss_pm, now);
        let before = cc.target_bps;
        cc.tick(before / 2, now);
        assert!(cc.target_bps <= before, "a back-off never raises the target");
        if ticks % 3 == 2 {
            loss_pm = loss_pm * 3 / 4; // the cut helps: loss improves by 25 % every three ticks
        }
        ticks += 1;
    }
    assert_eq!(cc.target_bps, 100_000, "walked down to the floor after {ticks} ticks");
    assert_ne!(cc.state, CcState::Bootstrap);

    // The next tick: loss has cleared, the link still delivers 50 kbit/s.
    now += 2_000; // loss window (1 s) has expired
    cc.record_rtt(50.0, now);
    cc.tick(50_000, now);
    assert!(
        cc.target_bps <= 106_000,
        "after its initial seeding the target may grow by at most 6 % per tick and never beyond twice \
         the measured rate, but it jumped from 100000 to {}",
        cc.target_bps
    );
}
