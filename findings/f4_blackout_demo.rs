// Demonstration for finding F4 (C03): a link that received REG_ERR (connected = false) and then
// any other datagram (last_received refreshed) kept a schedulable phase, so the stall gate counted
// it as the "healthy alternative" and gated the only link that could carry the stream; classic
// selection then returned None (packet dropped) although a usable link existed.
//
// Run: copy to /repo/crates/srtla-core/tests/f4_demo.rs and
//      cargo test --offline -p srtla-core --features test-internals --test f4_demo
// Fails on the tree before the "fix:" commit, passes after it.
use srtla_core::config_snapshot::ConfigSnapshot;
use srtla_core::mode::SchedulingMode;
use srtla_core::selection::select_connection_idx;
use srtla_core::test_helpers::create_test_connections;
use srtla_core::utils::now_ms;

#[test]
fn usable_but_latched_link_is_not_gated_by_a_rejected_link() {
    let rt = tokio::runtime::Runtime::new().unwrap();
    let mut conns = rt.block_on(create_test_connections(2));
    let now = now_ms();
    // link 0: REG_ERR arrived (process_uplink_packet: connected = false, last_received = None),
    // then a keepalive echo / any other datagram (last_received = Some(now)). Phase stays Live.
    conns[0].connected = false;
    conns[0].last_received = Some(now);
    // link 1: healthy registration, but stalled: big backlog, delivery proof 10 s old.
    conns[1].in_flight_packets = 100;
    conns[1].last_ack_or_rtt_sample_ms = now - 10_000;
    conns[1].last_received = Some(now);
    for mode in [SchedulingMode::Classic, SchedulingMode::Enhanced] {
        let cfg = ConfigSnapshot { mode, ..ConfigSnapshot::default() };
        let sel = select_connection_idx(&mut conns, None, now, &cfg);
        assert_eq!(sel, Some(1), "{mode:?}: the only usable uplink must carry the packet");
    }
}
