//! Nondeterministic stand-in for `rand` 0.9, used ONLY inside the Kani harness
//! workspaces.  `rng()` yields arbitrary (solver-chosen) values: the contract of
//! a random source.  The real crate's thread-local generator cannot be compiled
//! by Kani 0.68.
pub struct ThreadRng;
pub fn rng() -> ThreadRng {
    ThreadRng
}
pub trait RngCore {
    fn next_u32(&mut self) -> u32;
    fn next_u64(&mut self) -> u64;
    fn fill_bytes(&mut self, dst: &mut [u8]);
}
#[cfg(kani)]
impl RngCore for ThreadRng {
    fn next_u32(&mut self) -> u32 {
        kani::any()
    }
    fn next_u64(&mut self) -> u64 {
        kani::any()
    }
    fn fill_bytes(&mut self, dst: &mut [u8]) {
        let mut i = 0;
        while i < dst.len() {
            dst[i] = kani::any();
            i += 1;
        }
    }
}
#[cfg(not(kani))]
impl RngCore for ThreadRng {
    fn next_u32(&mut self) -> u32 {
        4
    }
    fn next_u64(&mut self) -> u64 {
        4
    }
    fn fill_bytes(&mut self, dst: &mut [u8]) {
        for b in dst.iter_mut() {
            *b = 4;
        }
    }
}
pub trait Rng: RngCore {}
impl<T: RngCore> Rng for T {}
