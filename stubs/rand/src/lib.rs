//! Nondeterministic stand-in for `rand` 0.9, used ONLY inside the Kani harness
//! workspaces.  The real crate's thread-local generator cannot be compiled by
//! Kani 0.68.  `rng()` yields fixed bytes and consumes NO solver values (so that
//! Kani's concrete-playback value vector stays aligned with a native replay on the
//! real crate); harnesses that need an arbitrary id overwrite the public field
//! with `kani::any()` themselves.
pub struct ThreadRng;
pub fn rng() -> ThreadRng {
    ThreadRng
}
pub trait RngCore {
    fn next_u32(&mut self) -> u32;
    fn next_u64(&mut self) -> u64;
    fn fill_bytes(&mut self, dst: &mut [u8]);
}
impl RngCore for ThreadRng {
    fn next_u32(&mut self) -> u32 {
        4
    }
    fn next_u64(&mut self) -> u64 {
        4
    }
    fn fill_bytes(&mut self, dst: &mut [u8]) {
        // memset, not a loop: no unwinding bound needed in harnesses that build a manager
        unsafe { core::ptr::write_bytes(dst.as_mut_ptr(), 4u8, dst.len()) };
    }
}
pub trait Rng: RngCore {}
impl<T: RngCore> Rng for T {}
