//! No-op stand-in for the `tracing` crate, used ONLY inside the Kani harness
//! workspaces under /verif/hk (wired with [patch.crates-io]).  The macros expand
//! to `{}` and do not evaluate their arguments – the observable behaviour of the
//! real crate when no subscriber is installed.  Real `tracing` touches
//! thread-locals, which Kani 0.68 cannot compile (ICE in intrinsics.rs).
#[derive(Clone, Copy, Debug, PartialEq, Eq, PartialOrd, Ord)]
pub struct Level(u8);
impl Level {
    pub const ERROR: Level = Level(1);
    pub const WARN: Level = Level(2);
    pub const INFO: Level = Level(3);
    pub const DEBUG: Level = Level(4);
    pub const TRACE: Level = Level(5);
}
#[macro_export]
macro_rules! trace { ($($t:tt)*) => {{}}; }
#[macro_export]
macro_rules! debug { ($($t:tt)*) => {{}}; }
#[macro_export]
macro_rules! info { ($($t:tt)*) => {{}}; }
#[macro_export]
macro_rules! warn { ($($t:tt)*) => {{}}; }
#[macro_export]
macro_rules! error { ($($t:tt)*) => {{}}; }
#[macro_export]
macro_rules! enabled { ($($t:tt)*) => { false }; }
