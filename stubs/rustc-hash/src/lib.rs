//! Model stand-in for `rustc-hash`, used ONLY inside the Kani harness workspaces
//! (wired with [patch.crates-io]).  `FxHashMap<K, V>` is a finite map kept as an
//! unordered `Vec<(K, V)>` with linear lookup: the same abstract behaviour as
//! hashbrown (a partial function from keys to values), without hashing, SIMD
//! group probing or `RandomState` thread-locals, none of which CBMC can decide
//! in reasonable time.  Native replays run on the real crate.
#[derive(Default, Clone, Copy, Debug)]
pub struct FxBuildHasher;

#[derive(Clone, Debug)]
pub struct FxHashMap<K, V> {
    items: Vec<(K, V)>,
}

impl<K, V> Default for FxHashMap<K, V> {
    fn default() -> Self {
        Self { items: Vec::new() }
    }
}

impl<K: PartialEq + Copy, V> FxHashMap<K, V> {
    pub fn with_capacity_and_hasher(_cap: usize, _h: FxBuildHasher) -> Self {
        // capacity is not observable through the map API
        Self { items: Vec::with_capacity(8) }
    }
    pub fn len(&self) -> usize {
        self.items.len()
    }
    pub fn is_empty(&self) -> bool {
        self.items.is_empty()
    }
    pub fn clear(&mut self) {
        self.items.clear();
    }
    fn pos(&self, k: &K) -> Option<usize> {
        let mut i = 0;
        while i < self.items.len() {
            if self.items[i].0 == *k {
                return Some(i);
            }
            i += 1;
        }
        None
    }
    pub fn insert(&mut self, k: K, v: V) -> Option<V> {
        match self.pos(&k) {
            Some(i) => Some(core::mem::replace(&mut self.items[i].1, v)),
            None => {
                self.items.push((k, v));
                None
            }
        }
    }
    pub fn get(&self, k: &K) -> Option<&V> {
        match self.pos(k) {
            Some(i) => Some(&self.items[i].1),
            None => None,
        }
    }
    pub fn contains_key(&self, k: &K) -> bool {
        self.pos(k).is_some()
    }
    pub fn remove(&mut self, k: &K) -> Option<V> {
        match self.pos(k) {
            Some(i) => Some(self.items.swap_remove(i).1),
            None => None,
        }
    }
    pub fn retain<F: FnMut(&K, &mut V) -> bool>(&mut self, mut f: F) {
        let mut i = 0;
        while i < self.items.len() {
            let keep = {
                let e = &mut self.items[i];
                f(&e.0, &mut e.1)
            };
            if keep {
                i += 1;
            } else {
                self.items.swap_remove(i);
            }
        }
    }
    pub fn keys(&self) -> impl Iterator<Item = &K> {
        self.items.iter().map(|e| &e.0)
    }
    pub fn values(&self) -> impl Iterator<Item = &V> {
        self.items.iter().map(|e| &e.1)
    }
    pub fn iter(&self) -> impl Iterator<Item = (&K, &V)> {
        self.items.iter().map(|e| (&e.0, &e.1))
    }
}
