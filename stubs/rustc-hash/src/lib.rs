//! Model stand-in for `rustc-hash`, used ONLY inside the Kani harness workspaces
//! (wired with [patch.crates-io]).  `FxHashMap<K, V>` is a finite map kept as a
//! fixed array of slots with a `used` flag each and linear lookup: the same
//! abstract behaviour as hashbrown (a partial function from keys to values),
//! without hashing, SIMD group probing, heap growth or `RandomState`
//! thread-locals, none of which CBMC can decide in reasonable time.  Entries never
//! move between slots (removal just clears the flag), which keeps the SAT problem
//! free of permutation reasoning.  Capacity is `MAP_CAP` entries (default 4,
//! build-time env `VERIF_MAP_CAP`); exceeding it prunes the path (`kani::assume`)
//! and is a stated bound of the harnesses.  Every scan has the constant trip count
//! MAP_CAP, so it does not multiply with loops of the code under test.  Native
//! replays run on the real crate.

const fn parse_cap(s: Option<&str>) -> usize {
    match s {
        None => 4,
        Some(s) => {
            let b = s.as_bytes();
            let mut i = 0;
            let mut v = 0usize;
            while i < b.len() {
                v = v * 10 + (b[i] - b'0') as usize;
                i += 1;
            }
            v
        }
    }
}
pub const MAP_CAP: usize = parse_cap(option_env!("VERIF_MAP_CAP"));

#[inline]
fn model_bound(ok: bool) {
    #[cfg(kani)]
    kani::assume(ok);
    #[cfg(not(kani))]
    assert!(ok, "map model capacity exceeded");
}

#[derive(Default, Clone, Copy, Debug)]
pub struct FxBuildHasher;

#[derive(Clone, Debug)]
pub struct FxHashMap<K: Copy + Default, V: Copy + Default> {
    keys: [K; MAP_CAP],
    vals: [V; MAP_CAP],
    used: [bool; MAP_CAP],
    len: usize,
}

impl<K: Copy + Default, V: Copy + Default> Default for FxHashMap<K, V> {
    fn default() -> Self {
        Self { keys: [K::default(); MAP_CAP], vals: [V::default(); MAP_CAP], used: [false; MAP_CAP], len: 0 }
    }
}

impl<K: PartialEq + Copy + Default, V: Copy + Default> FxHashMap<K, V> {
    pub fn with_capacity_and_hasher(_cap: usize, _h: FxBuildHasher) -> Self {
        // capacity is not observable through the map API
        Self::default()
    }
    pub fn len(&self) -> usize {
        self.len
    }
    pub fn is_empty(&self) -> bool {
        self.len == 0
    }
    pub fn clear(&mut self) {
        self.used = [false; MAP_CAP];
        self.len = 0;
    }
    fn pos(&self, k: &K) -> Option<usize> {
        let mut found: Option<usize> = None;
        let mut i = 0;
        while i < MAP_CAP {
            if self.used[i] && self.keys[i] == *k {
                found = Some(i);
            }
            i += 1;
        }
        found
    }
    pub fn insert(&mut self, k: K, v: V) -> Option<V> {
        match self.pos(&k) {
            Some(i) => {
                let old = self.vals[i];
                self.vals[i] = v;
                Some(old)
            }
            None => {
                let mut free: Option<usize> = None;
                let mut i = 0;
                while i < MAP_CAP {
                    if !self.used[i] && free.is_none() {
                        free = Some(i);
                    }
                    i += 1;
                }
                model_bound(free.is_some());
                if let Some(i) = free {
                    self.used[i] = true;
                    self.keys[i] = k;
                    self.vals[i] = v;
                    self.len += 1;
                }
                None
            }
        }
    }
    pub fn get(&self, k: &K) -> Option<&V> {
        match self.pos(k) {
            Some(i) => Some(&self.vals[i]),
            None => None,
        }
    }
    pub fn contains_key(&self, k: &K) -> bool {
        self.pos(k).is_some()
    }
    pub fn remove(&mut self, k: &K) -> Option<V> {
        match self.pos(k) {
            Some(i) => {
                self.used[i] = false;
                self.len -= 1;
                Some(self.vals[i])
            }
            None => None,
        }
    }
    pub fn retain<F: FnMut(&K, &mut V) -> bool>(&mut self, mut f: F) {
        let mut i = 0;
        while i < MAP_CAP {
            if self.used[i] {
                let k = self.keys[i];
                if !f(&k, &mut self.vals[i]) {
                    self.used[i] = false;
                    self.len -= 1;
                }
            }
            i += 1;
        }
    }
}

// Further std-HashMap surface that a change to the code under test may start using (a seeded change did):
// kept small and loop-shaped like the rest.
impl<K: PartialEq + Copy + Default, V: Copy + Default> Extend<(K, V)> for FxHashMap<K, V> {
    fn extend<I: IntoIterator<Item = (K, V)>>(&mut self, iter: I) {
        for (k, v) in iter {
            self.insert(k, v);
        }
    }
}

impl<K: PartialEq + Copy + Default, V: Copy + Default> FxHashMap<K, V> {
    pub fn get_mut(&mut self, k: &K) -> Option<&mut V> {
        let mut i = 0;
        while i < MAP_CAP {
            if self.used[i] && self.keys[i] == *k {
                return Some(&mut self.vals[i]);
            }
            i += 1;
        }
        None
    }
}
