//! Model stand-in for `rustc-hash`, used ONLY inside the Kani harness workspaces
//! (wired with [patch.crates-io]).  `FxHashMap<K, V>` is a finite map kept as an
//! unordered array of (key, value) pairs with linear lookup: the same abstract
//! behaviour as hashbrown (a partial function from keys to values), without
//! hashing, SIMD group probing, heap growth or `RandomState` thread-locals, none
//! of which CBMC can decide in reasonable time.  Capacity is `MAP_CAP` entries
//! (default 8, build-time env `VERIF_MAP_CAP`); exceeding it prunes the path
//! (`kani::assume`) and is a stated bound of the harnesses.  Native replays run
//! on the real crate.
use core::mem::MaybeUninit;

const fn parse_cap(s: Option<&str>) -> usize {
    match s {
        None => 8,
        Some(s) => {
            let b = s.as_bytes();
            let mut i = 0;
            let mut v = 0usize;
            while i < b.len() {
                v = v * 10 + (b[i] - b'0') as usize;
                i += 1;
            }
            v
        }
    }
}
pub const MAP_CAP: usize = parse_cap(option_env!("VERIF_MAP_CAP"));

#[inline]
fn model_bound(ok: bool) {
    #[cfg(kani)]
    kani::assume(ok);
    #[cfg(not(kani))]
    assert!(ok, "map model capacity exceeded");
}

#[derive(Default, Clone, Copy, Debug)]
pub struct FxBuildHasher;

#[derive(Clone, Debug)]
pub struct FxHashMap<K: Copy, V: Copy> {
    items: [MaybeUninit<(K, V)>; MAP_CAP],
    len: usize,
}

impl<K: Copy, V: Copy> Default for FxHashMap<K, V> {
    fn default() -> Self {
        Self { items: [MaybeUninit::uninit(); MAP_CAP], len: 0 }
    }
}

impl<K: PartialEq + Copy, V: Copy> FxHashMap<K, V> {
    pub fn with_capacity_and_hasher(_cap: usize, _h: FxBuildHasher) -> Self {
        // capacity is not observable through the map API
        Self::default()
    }
    #[inline]
    fn at(&self, i: usize) -> (K, V) {
        unsafe { self.items[i].assume_init() }
    }
    pub fn len(&self) -> usize {
        self.len
    }
    pub fn is_empty(&self) -> bool {
        self.len == 0
    }
    pub fn clear(&mut self) {
        self.len = 0;
    }
    fn pos(&self, k: &K) -> Option<usize> {
        let mut i = 0;
        while i < self.len {
            if self.at(i).0 == *k {
                return Some(i);
            }
            i += 1;
        }
        None
    }
    pub fn insert(&mut self, k: K, v: V) -> Option<V> {
        match self.pos(&k) {
            Some(i) => {
                let old = self.at(i).1;
                self.items[i] = MaybeUninit::new((k, v));
                Some(old)
            }
            None => {
                model_bound(self.len < MAP_CAP);
                self.items[self.len] = MaybeUninit::new((k, v));
                self.len += 1;
                None
            }
        }
    }
    pub fn get(&self, k: &K) -> Option<&V> {
        match self.pos(k) {
            Some(i) => Some(unsafe { &(*self.items[i].as_ptr()).1 }),
            None => None,
        }
    }
    pub fn contains_key(&self, k: &K) -> bool {
        self.pos(k).is_some()
    }
    pub fn remove(&mut self, k: &K) -> Option<V> {
        match self.pos(k) {
            Some(i) => {
                let old = self.at(i).1;
                self.len -= 1;
                if i != self.len {
                    self.items[i] = self.items[self.len];
                }
                Some(old)
            }
            None => None,
        }
    }
    pub fn retain<F: FnMut(&K, &mut V) -> bool>(&mut self, mut f: F) {
        let mut i = 0;
        while i < self.len {
            let (k, mut v) = self.at(i);
            if f(&k, &mut v) {
                self.items[i] = MaybeUninit::new((k, v));
                i += 1;
            } else {
                self.len -= 1;
                if i != self.len {
                    self.items[i] = self.items[self.len];
                }
            }
        }
    }
    /// model-only observer used by harness oracles
    pub fn model_entry(&self, i: usize) -> Option<(K, V)> {
        if i < self.len { Some(self.at(i)) } else { None }
    }
}
