//! Empty stand-in: only `main.rs` (not the library) uses tracing-subscriber.
