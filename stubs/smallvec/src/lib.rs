//! Model stand-in for `smallvec` 2.0.0-alpha.12, used ONLY inside the Kani
//! harness workspaces (wired with [patch.crates-io]).  `SmallVec<T, N>` is a
//! fixed-capacity, array-backed sequence with the same abstract semantics as the
//! real type, but without the inline/heap union, spill and `realloc` logic that
//! CBMC cannot decide in reasonable time (a 5th push onto a real
//! `SmallVec<u32, 4>` did not finish in 15 minutes; a heap `Vec` model with a
//! symbolic write index took 11 minutes for a 16-byte NAK frame).
//!
//! Capacity is `MODEL_CAP` elements for every `T` and `N` (default 40, or the
//! build-time env var `VERIF_SV_CAP`).  Running out of model capacity prunes the
//! path (`kani::assume`): it is a STATED BOUND of every harness, never a silent
//! truncation of behaviour the harness claims (harness cover goals guard this).
//! Native replays run on the real crate.
use core::mem::MaybeUninit;
use core::ops::{Deref, DerefMut};

const fn parse_cap(s: Option<&str>) -> usize {
    match s {
        None => 40,
        Some(s) => {
            let b = s.as_bytes();
            let mut i = 0;
            let mut v = 0usize;
            while i < b.len() {
                v = v * 10 + (b[i] - b'0') as usize;
                i += 1;
            }
            v
        }
    }
}

pub const MODEL_CAP: usize = parse_cap(option_env!("VERIF_SV_CAP"));

#[inline]
fn model_bound(ok: bool) {
    #[cfg(kani)]
    kani::assume(ok);
    #[cfg(not(kani))]
    assert!(ok, "smallvec model capacity exceeded");
}

/// Model-only: upper bound on the length any vector may reach through `push` while it is set.
/// A differential harness sets it to the reference's element count before calling the code under
/// test, so that an implementation that produces MORE elements fails an assertion at the first
/// excess push - before a runaway loop merely exhausts the unwinding bound (Kani generates no
/// replayable counterexample for unwinding assertions).
pub static mut MODEL_PUSH_LIMIT: usize = usize::MAX;
pub fn model_set_push_limit(n: usize) {
    unsafe { MODEL_PUSH_LIMIT = n }
}

pub struct SmallVec<T, const N: usize> {
    buf: [MaybeUninit<T>; MODEL_CAP],
    len: usize,
}

impl<T, const N: usize> SmallVec<T, N> {
    #[inline]
    pub fn new() -> Self {
        Self { buf: [const { MaybeUninit::uninit() }; MODEL_CAP], len: 0 }
    }
    #[inline]
    pub fn with_capacity(_c: usize) -> Self {
        Self::new()
    }
    #[inline]
    pub fn from_vec(v: Vec<T>) -> Self {
        let mut s = Self::new();
        for t in v {
            s.push(t);
        }
        s
    }
    #[inline]
    pub fn from_slice_copy(src: &[T]) -> Self
    where
        T: Copy,
    {
        let mut s = Self::new();
        let n = src.len();
        model_bound(n <= MODEL_CAP);
        // memcpy, not a loop: no unwinding bound proportional to the payload length is needed
        unsafe { core::ptr::copy_nonoverlapping(src.as_ptr(), s.buf.as_mut_ptr() as *mut T, n) };
        s.len = n;
        s
    }
    #[inline]
    pub fn from_slice(src: &[T]) -> Self
    where
        T: Clone,
    {
        let mut s = Self::new();
        for t in src {
            s.push(t.clone());
        }
        s
    }
    #[inline]
    pub fn push(&mut self, t: T) {
        let n = self.len;
        assert!(n < unsafe { MODEL_PUSH_LIMIT }, "more elements produced than the harness's reference allows");
        model_bound(n < MODEL_CAP);
        self.buf[n] = MaybeUninit::new(t);
        self.len = n + 1;
    }
    #[inline]
    pub fn pop(&mut self) -> Option<T> {
        if self.len == 0 {
            return None;
        }
        self.len -= 1;
        Some(unsafe { self.buf[self.len].assume_init_read() })
    }
    #[inline]
    pub fn clear(&mut self) {
        self.truncate(0)
    }
    pub fn truncate(&mut self, n: usize) {
        while self.len > n {
            self.len -= 1;
            unsafe { self.buf[self.len].assume_init_drop() };
        }
    }
    #[inline]
    pub fn as_slice(&self) -> &[T] {
        unsafe { core::slice::from_raw_parts(self.buf.as_ptr() as *const T, self.len) }
    }
    #[inline]
    pub fn as_mut_slice(&mut self) -> &mut [T] {
        unsafe { core::slice::from_raw_parts_mut(self.buf.as_mut_ptr() as *mut T, self.len) }
    }
    #[inline]
    pub fn capacity(&self) -> usize {
        MODEL_CAP
    }
    #[inline]
    pub fn spilled(&self) -> bool {
        self.len > N
    }
    pub fn into_vec(self) -> Vec<T> {
        let mut v = Vec::new();
        for t in self {
            v.push(t);
        }
        v
    }
    pub fn insert(&mut self, idx: usize, t: T) {
        assert!(idx <= self.len, "insertion index out of bounds");
        model_bound(self.len < MODEL_CAP);
        let mut i = self.len;
        while i > idx {
            self.buf[i] = MaybeUninit::new(unsafe { self.buf[i - 1].assume_init_read() });
            i -= 1;
        }
        self.buf[idx] = MaybeUninit::new(t);
        self.len += 1;
    }
    pub fn remove(&mut self, idx: usize) -> T {
        assert!(idx < self.len, "removal index out of bounds");
        let t = unsafe { self.buf[idx].assume_init_read() };
        let mut i = idx;
        while i + 1 < self.len {
            self.buf[i] = MaybeUninit::new(unsafe { self.buf[i + 1].assume_init_read() });
            i += 1;
        }
        self.len -= 1;
        t
    }
    pub fn swap_remove(&mut self, idx: usize) -> T {
        assert!(idx < self.len, "swap_remove index out of bounds");
        let t = unsafe { self.buf[idx].assume_init_read() };
        self.len -= 1;
        if idx != self.len {
            self.buf[idx] = MaybeUninit::new(unsafe { self.buf[self.len].assume_init_read() });
        }
        t
    }
    pub fn retain<F: FnMut(&mut T) -> bool>(&mut self, mut f: F) {
        let n = self.len;
        self.len = 0; // elements are moved out one by one
        let mut w = 0;
        let mut r = 0;
        while r < n {
            let mut t = unsafe { self.buf[r].assume_init_read() };
            if f(&mut t) {
                self.buf[w] = MaybeUninit::new(t);
                w += 1;
            } else {
                drop(t);
            }
            r += 1;
        }
        self.len = w;
    }
    pub fn append<const M: usize>(&mut self, other: &mut SmallVec<T, M>) {
        let n = other.len;
        other.len = 0;
        let mut i = 0;
        while i < n {
            let t = unsafe { other.buf[i].assume_init_read() };
            self.push(t);
            i += 1;
        }
    }
    pub fn extend_from_slice(&mut self, s: &[T])
    where
        T: Clone,
    {
        for t in s {
            self.push(t.clone());
        }
    }
    pub fn reserve(&mut self, _n: usize) {}

    /// Model-only: a `push` that counts but does not store (no capacity bound).  Harnesses that
    /// decide a claim about the NUMBER of entries only (the 1000-entry NAK cap) substitute it for
    /// `push` with `#[kani::stub]`; such harnesses never read the elements.
    pub fn model_push_count_only(&mut self, t: T) {
        core::mem::forget(t);
        self.len += 1;
    }
}

impl<T, const N: usize> Drop for SmallVec<T, N> {
    fn drop(&mut self) {
        if core::mem::needs_drop::<T>() {
            self.truncate(0);
        }
    }
}

impl<T, const N: usize> Default for SmallVec<T, N> {
    fn default() -> Self {
        Self::new()
    }
}

impl<T: Clone, const N: usize> Clone for SmallVec<T, N> {
    fn clone(&self) -> Self {
        let mut s = Self::new();
        let mut i = 0;
        while i < self.len {
            s.push(self.as_slice()[i].clone());
            i += 1;
        }
        s
    }
}

impl<T: core::fmt::Debug, const N: usize> core::fmt::Debug for SmallVec<T, N> {
    fn fmt(&self, f: &mut core::fmt::Formatter<'_>) -> core::fmt::Result {
        self.as_slice().fmt(f)
    }
}

impl<T, const N: usize> Deref for SmallVec<T, N> {
    type Target = [T];
    #[inline]
    fn deref(&self) -> &[T] {
        self.as_slice()
    }
}
impl<T, const N: usize> DerefMut for SmallVec<T, N> {
    #[inline]
    fn deref_mut(&mut self) -> &mut [T] {
        self.as_mut_slice()
    }
}
impl<T, const N: usize> AsRef<[T]> for SmallVec<T, N> {
    fn as_ref(&self) -> &[T] {
        self.as_slice()
    }
}
impl<T, const N: usize> core::borrow::Borrow<[T]> for SmallVec<T, N> {
    fn borrow(&self) -> &[T] {
        self.as_slice()
    }
}

pub struct IntoIter<T, const N: usize> {
    v: SmallVec<T, N>,
    pos: usize,
    end: usize,
}
impl<T, const N: usize> Iterator for IntoIter<T, N> {
    type Item = T;
    #[inline]
    fn next(&mut self) -> Option<T> {
        if self.pos >= self.end {
            return None;
        }
        let t = unsafe { self.v.buf[self.pos].assume_init_read() };
        self.pos += 1;
        Some(t)
    }
    fn size_hint(&self) -> (usize, Option<usize>) {
        (self.end - self.pos, Some(self.end - self.pos))
    }
}
impl<T, const N: usize> Drop for IntoIter<T, N> {
    fn drop(&mut self) {
        if core::mem::needs_drop::<T>() {
            while self.pos < self.end {
                unsafe { self.v.buf[self.pos].assume_init_drop() };
                self.pos += 1;
            }
        }
    }
}
impl<T, const N: usize> IntoIterator for SmallVec<T, N> {
    type Item = T;
    type IntoIter = IntoIter<T, N>;
    fn into_iter(mut self) -> IntoIter<T, N> {
        let end = self.len;
        self.len = 0; // ownership of the elements moves to the iterator
        IntoIter { v: self, pos: 0, end }
    }
}
impl<'a, T, const N: usize> IntoIterator for &'a SmallVec<T, N> {
    type Item = &'a T;
    type IntoIter = core::slice::Iter<'a, T>;
    fn into_iter(self) -> Self::IntoIter {
        self.as_slice().iter()
    }
}
impl<'a, T, const N: usize> IntoIterator for &'a mut SmallVec<T, N> {
    type Item = &'a mut T;
    type IntoIter = core::slice::IterMut<'a, T>;
    fn into_iter(self) -> Self::IntoIter {
        self.as_mut_slice().iter_mut()
    }
}
impl<T, const N: usize> FromIterator<T> for SmallVec<T, N> {
    fn from_iter<I: IntoIterator<Item = T>>(it: I) -> Self {
        let mut s = Self::new();
        for t in it {
            s.push(t);
        }
        s
    }
}
impl<T, const N: usize> Extend<T> for SmallVec<T, N> {
    fn extend<I: IntoIterator<Item = T>>(&mut self, it: I) {
        for t in it {
            self.push(t);
        }
    }
}
impl<T, const N: usize> From<Vec<T>> for SmallVec<T, N> {
    fn from(v: Vec<T>) -> Self {
        Self::from_vec(v)
    }
}
impl<T: Clone, const N: usize> From<&[T]> for SmallVec<T, N> {
    fn from(s: &[T]) -> Self {
        Self::from_slice(s)
    }
}
impl<T, const N: usize, const M: usize> From<[T; M]> for SmallVec<T, N> {
    fn from(a: [T; M]) -> Self {
        let mut s = Self::new();
        for t in a {
            s.push(t);
        }
        s
    }
}
impl<T: PartialEq, const N: usize, const M: usize> PartialEq<SmallVec<T, M>> for SmallVec<T, N> {
    fn eq(&self, o: &SmallVec<T, M>) -> bool {
        self.as_slice() == o.as_slice()
    }
}
impl<T: Eq, const N: usize> Eq for SmallVec<T, N> {}
impl<T: PartialEq, const N: usize> PartialEq<[T]> for SmallVec<T, N> {
    fn eq(&self, o: &[T]) -> bool {
        self.as_slice() == o
    }
}
impl<T: PartialEq, const N: usize> PartialEq<Vec<T>> for SmallVec<T, N> {
    fn eq(&self, o: &Vec<T>) -> bool {
        self.as_slice() == o.as_slice()
    }
}
impl<T: PartialEq, const N: usize, const M: usize> PartialEq<[T; M]> for SmallVec<T, N> {
    fn eq(&self, o: &[T; M]) -> bool {
        self.as_slice() == &o[..]
    }
}

#[macro_export]
macro_rules! smallvec {
    () => { $crate::SmallVec::new() };
    ($elem:expr; $n:expr) => { $crate::SmallVec::from_vec(vec![$elem; $n]) };
    ($($x:expr),+ $(,)?) => { $crate::SmallVec::from_vec(vec![$($x),+]) };
}
