//! Model stand-in for `smallvec` 2.0.0-alpha.12, used ONLY inside the Kani
//! harness workspaces (wired with [patch.crates-io]).  `SmallVec<T, N>` is a
//! newtype over `Vec<T>`: the same abstract sequence semantics, without the
//! inline/heap union and spill logic that CBMC cannot unroll in reasonable time
//! (a 5th push onto a real `SmallVec<u32, 4>` did not finish in 15 minutes).
//! Native replays run on the real crate.
use core::ops::{Deref, DerefMut};

#[derive(Clone, PartialEq, Eq, Hash, PartialOrd, Ord)]
pub struct SmallVec<T, const N: usize> {
    v: Vec<T>,
}

impl<T, const N: usize> Default for SmallVec<T, N> {
    fn default() -> Self {
        Self::new()
    }
}

impl<T: core::fmt::Debug, const N: usize> core::fmt::Debug for SmallVec<T, N> {
    fn fmt(&self, f: &mut core::fmt::Formatter<'_>) -> core::fmt::Result {
        self.v.fmt(f)
    }
}

impl<T, const N: usize> SmallVec<T, N> {
    #[inline]
    pub fn new() -> Self {
        Self { v: Vec::new() }
    }
    #[inline]
    pub fn with_capacity(c: usize) -> Self {
        Self { v: Vec::with_capacity(c) }
    }
    #[inline]
    pub fn from_vec(v: Vec<T>) -> Self {
        Self { v }
    }
    #[inline]
    pub fn from_slice_copy(s: &[T]) -> Self
    where
        T: Copy,
    {
        Self { v: s.to_vec() }
    }
    #[inline]
    pub fn from_slice(s: &[T]) -> Self
    where
        T: Clone,
    {
        Self { v: s.to_vec() }
    }
    #[inline]
    pub fn push(&mut self, t: T) {
        self.v.push(t)
    }
    #[inline]
    pub fn pop(&mut self) -> Option<T> {
        self.v.pop()
    }
    #[inline]
    pub fn clear(&mut self) {
        self.v.clear()
    }
    #[inline]
    pub fn truncate(&mut self, n: usize) {
        self.v.truncate(n)
    }
    #[inline]
    pub fn as_slice(&self) -> &[T] {
        &self.v
    }
    #[inline]
    pub fn as_mut_slice(&mut self) -> &mut [T] {
        &mut self.v
    }
    #[inline]
    pub fn capacity(&self) -> usize {
        self.v.capacity().max(N)
    }
    #[inline]
    pub fn spilled(&self) -> bool {
        self.v.len() > N
    }
    #[inline]
    pub fn into_vec(self) -> Vec<T> {
        self.v
    }
    #[inline]
    pub fn insert(&mut self, i: usize, t: T) {
        self.v.insert(i, t)
    }
    #[inline]
    pub fn remove(&mut self, i: usize) -> T {
        self.v.remove(i)
    }
    #[inline]
    pub fn swap_remove(&mut self, i: usize) -> T {
        self.v.swap_remove(i)
    }
    pub fn retain<F: FnMut(&mut T) -> bool>(&mut self, mut f: F) {
        // hand-written (std's retain uses a drop guard + raw pointers)
        let mut kept: Vec<T> = Vec::with_capacity(self.v.len());
        let old = core::mem::take(&mut self.v);
        for mut t in old {
            if f(&mut t) {
                kept.push(t);
            }
        }
        self.v = kept;
    }
    pub fn append<const M: usize>(&mut self, other: &mut SmallVec<T, M>) {
        self.v.append(&mut other.v)
    }
    pub fn extend_from_slice(&mut self, s: &[T])
    where
        T: Clone,
    {
        self.v.extend_from_slice(s)
    }
    pub fn drain<R: core::ops::RangeBounds<usize>>(&mut self, r: R) -> std::vec::Drain<'_, T> {
        self.v.drain(r)
    }
    pub fn reserve(&mut self, n: usize) {
        self.v.reserve(n)
    }
}

impl<T, const N: usize> Deref for SmallVec<T, N> {
    type Target = [T];
    #[inline]
    fn deref(&self) -> &[T] {
        &self.v
    }
}
impl<T, const N: usize> DerefMut for SmallVec<T, N> {
    #[inline]
    fn deref_mut(&mut self) -> &mut [T] {
        &mut self.v
    }
}
impl<T, const N: usize> AsRef<[T]> for SmallVec<T, N> {
    fn as_ref(&self) -> &[T] {
        &self.v
    }
}
impl<T, const N: usize> core::borrow::Borrow<[T]> for SmallVec<T, N> {
    fn borrow(&self) -> &[T] {
        &self.v
    }
}
impl<T, const N: usize> IntoIterator for SmallVec<T, N> {
    type Item = T;
    type IntoIter = std::vec::IntoIter<T>;
    fn into_iter(self) -> Self::IntoIter {
        self.v.into_iter()
    }
}
impl<'a, T, const N: usize> IntoIterator for &'a SmallVec<T, N> {
    type Item = &'a T;
    type IntoIter = core::slice::Iter<'a, T>;
    fn into_iter(self) -> Self::IntoIter {
        self.v.iter()
    }
}
impl<'a, T, const N: usize> IntoIterator for &'a mut SmallVec<T, N> {
    type Item = &'a mut T;
    type IntoIter = core::slice::IterMut<'a, T>;
    fn into_iter(self) -> Self::IntoIter {
        self.v.iter_mut()
    }
}
impl<T, const N: usize> FromIterator<T> for SmallVec<T, N> {
    fn from_iter<I: IntoIterator<Item = T>>(it: I) -> Self {
        let mut v = Vec::new();
        for t in it {
            v.push(t);
        }
        Self { v }
    }
}
impl<T, const N: usize> Extend<T> for SmallVec<T, N> {
    fn extend<I: IntoIterator<Item = T>>(&mut self, it: I) {
        for t in it {
            self.v.push(t);
        }
    }
}
impl<T, const N: usize> From<Vec<T>> for SmallVec<T, N> {
    fn from(v: Vec<T>) -> Self {
        Self { v }
    }
}
impl<T: Clone, const N: usize> From<&[T]> for SmallVec<T, N> {
    fn from(s: &[T]) -> Self {
        Self { v: s.to_vec() }
    }
}
impl<T, const N: usize, const M: usize> From<[T; M]> for SmallVec<T, N> {
    fn from(a: [T; M]) -> Self {
        Self { v: Vec::from(a) }
    }
}
impl<T: PartialEq, const N: usize> PartialEq<[T]> for SmallVec<T, N> {
    fn eq(&self, o: &[T]) -> bool {
        self.v.as_slice() == o
    }
}
impl<T: PartialEq, const N: usize> PartialEq<Vec<T>> for SmallVec<T, N> {
    fn eq(&self, o: &Vec<T>) -> bool {
        &self.v == o
    }
}
impl<T: PartialEq, const N: usize, const M: usize> PartialEq<[T; M]> for SmallVec<T, N> {
    fn eq(&self, o: &[T; M]) -> bool {
        self.v.as_slice() == &o[..]
    }
}

#[macro_export]
macro_rules! smallvec {
    () => { $crate::SmallVec::new() };
    ($elem:expr; $n:expr) => { $crate::SmallVec::from_vec(vec![$elem; $n]) };
    ($($x:expr),+ $(,)?) => { $crate::SmallVec::from_vec(vec![$($x),+]) };
}
