"""Harness registry: which Kani harnesses decide which property, at which tier, with which
bounds / stubs / assumptions.  bin/check reads this; evidence files are generated from it plus
the parsed solver output."""

MEM_GB = 14
DEFAULT_TIMEOUT = {"quick": 600, "thorough": 3000}

COMMON_ASSUMPTIONS = [
    "Kani 0.68 / CBMC 6.11 / CaDiCaL are sound for the Rust MIR they compile (dev-profile semantics, overflow checks on)",
    "tracing macros are no-ops (patched crate in the harness workspace only): behaviour of real tracing with no subscriber",
    "smallvec::SmallVec and rustc_hash::FxHashMap are replaced IN THE KANI BUILD ONLY by sequence / finite-map models "
    "(/verif/stubs); every counterexample is re-executed natively on the real crates before it is reported",
]


def H(name, crate, tier="quick", desc="", bounds="", **kw):
    d = dict(name=name, crate=crate, tier=tier, desc=desc, bounds=bounds)
    d.update(kw)
    return d


PROPS = {}

PROPS["C06"] = dict(
    functions=["CongestionControl::handle_nak", "CongestionControl::handle_srtla_ack_specific_classic -> congestion::classic::handle_srtla_ack_specific",
               "CongestionControl::handle_srtla_ack_enhanced -> congestion::enhanced::handle_srtla_ack",
               "CongestionControl::perform_window_recovery -> congestion::enhanced::perform_window_recovery", "CongestionControl::reset",
               "SrtlaConnection::{handle_srtla_ack_specific, handle_nak, handle_srtla_ack_global, mark_for_recovery, reset_for_reconnect, new_registering}"],
    bounds="one step of each mutator from an arbitrary state: window in [1000,60000], in-flight in 0..=i32::MAX, every other "
           "CongestionControl field over its full type, RTT velocity over all f64 bit patterns (NaN/inf included), clock over all u64 "
           "(connection-level harness: clock <= 2^48, <= 2 outstanding packets); thorough adds a 3-event symbolic history",
    stubs=["alloc::fmt::format -> empty String (message text only)"],
    assumptions=["representation invariant assumed on the pre-state and re-asserted on the post-state: 1000 <= window <= 60000"],
    outside="'classic mode never applies time-based recovery' is decided by the shell harness c06s (housekeeping) when present; "
            "histories longer than one step are covered inductively through the asserted invariant",
    harnesses=[
        H("c06::c06_nak_step", "core", desc="NAK: -100 floored, never increases, fast recovery entered only at <=2000"),
        H("c06::c06_ack_classic_step", "core", desc="classic earned ACK: +29 iff in_flight*1000 > window, capped, never decreases"),
        H("c06::c06_ack_enhanced_step", "core", desc="enhanced earned ACK: same growth; fast recovery left only at >=12000"),
        H("c06::c06_recovery_step", "core", desc="time-based recovery: never decreases, capped, fast recovery left only at >=12000"),
        H("c06::c06_conn_events_step", "core", desc="same rules through SrtlaConnection API incl. global +1", bounds="<=2 outstanding packets, unwind 4"),
        H("c06::c06_resets", "core", desc="initial and post-teardown window 20000"),
        H("c06::c06_history_3", "core", tier="thorough", desc="3-event symbolic history, trace invariants", bounds="3 events"),
    ],
)

PROPS["C13"] = dict(
    functions=["SrtlaConnection::{effective_stall_stale_ms, is_stalled, update_stall_latch, silence_pull_window_ms, is_briefly_silent, "
               "update_silence_pull (via hook), get_smooth_rtt_ms}",
               "SrtlaConnection::{handle_srtla_ack_specific, handle_srt_ack, handle_nak, handle_srtla_ack_global, register_packet, keepalive_packet, "
               "perform_window_recovery, update_phase} (proof-stamp sites)"],
    bounds="one call from an arbitrary link state: every field the guard reads is symbolic (in-flight 0..=i32::MAX, threshold any i32 incl. "
           "negative, ceiling 0..2^48 incl. below the 1000 ms floor, clock/stamps 0..2^48, smoothed RTT none or any whole ms 0..5000; "
           "c13_effective_window_f64: any finite f64 RTT); temporal clause: 3 consecutive decisions with arbitrary state changes in between",
    stubs=["alloc::fmt::format -> empty String", "RttTracker::update_estimate -> no-op (c13_proof_stamp_sites only: RTT sampling is C14)"],
    assumptions=["clock values <= 2^48 ms", "trace harness starts with no rejoin run in progress (a run cannot pre-date the trace)"],
    outside="keepalive-echo stamping site lives in the shell (process_uplink_packet) and is decided by the C09 shell harness when present; "
            "traces longer than 3 decisions follow inductively from c13_latch_step's run-bookkeeping facts",
    harnesses=[
        H("c13::c13_effective_window", "core", desc="effective staleness / pull windows equal the clamp formulas"),
        H("c13::c13_effective_window_f64", "core", desc="same with a fully symbolic finite f64 smoothed RTT"),
        H("c13::c13_latch_step", "core", desc="engage/hold/release conditions of one update_stall_latch call"),
        H("c13::c13_pull_step", "core", desc="engage/release conditions of one update_silence_pull call"),
        H("c13::c13_latch_trace_3", "core", desc="3-decision trace vs independent fresh-run monitor", bounds="3 decisions, unwind 4"),
        H("c13::c13_latch_trace_release_reachable", "core", desc="vacuity witness: a release within 3 decisions is reachable"),
        H("c13::c13_proof_stamp_sites", "core", desc="delivery proof stamped only by an earned SRTLA ACK"),
    ],
)

NOT_APPLICABLE = {
    "C20": "quantifies over interleavings of tokio tasks contending for an async Mutex and bounded mpsc channels; Kani/CBMC do not model "
           "concurrency or an async scheduler, tokio's runtime touches thread-locals Kani 0.68 cannot compile, and a hand encoding would "
           "verify a model of tokio rather than the real code",
}
