"""Harness registry: which Kani harnesses decide which property, at which tier, with which
bounds / stubs / assumptions.  bin/check reads this; evidence files are generated from it plus
the parsed solver output."""

MEM_GB = 14
DEFAULT_TIMEOUT = {"quick": 600, "thorough": 3000}

COMMON_ASSUMPTIONS = [
    "Kani 0.68 / CBMC 6.11 / CaDiCaL are sound for the Rust MIR they compile (dev-profile semantics, overflow checks on)",
    "tracing macros are no-ops (patched crate in the harness workspace only): behaviour of real tracing with no subscriber",
    "smallvec::SmallVec and rustc_hash::FxHashMap are replaced IN THE KANI BUILD ONLY by sequence / finite-map models "
    "(/verif/stubs); every counterexample is re-executed natively on the real crates before it is reported",
]


def H(name, crate, tier="quick", desc="", bounds="", **kw):
    d = dict(name=name, crate=crate, tier=tier, desc=desc, bounds=bounds)
    d.update(kw)
    return d


PROPS = {}

PROPS["C06"] = dict(
    functions=["CongestionControl::handle_nak"],
    bounds="one step from an arbitrary state",
    stubs=["alloc::fmt::format -> empty String"],
    assumptions=[],
    outside="",
    harnesses=[
        H("c06::c06_nak_step", "core", desc="NAK step", bounds="all i32/u64 field values, window in [1000,60000]"),
    ],
)
