"""Harness registry: which Kani harnesses decide which property, at which tier, with which
bounds / stubs / assumptions.  bin/check reads this; evidence files are generated from it plus
the parsed solver output."""

MEM_GB = int(__import__("os").environ.get("VERIF_MEM_GB", "14"))
MEM_GB_PLAYBACK = 44   # kani-driver parses the full CBMC json trace for concrete playback
DEFAULT_TIMEOUT = {"quick": 600, "thorough": 3000}

COMMON_ASSUMPTIONS = [
    "Kani 0.68 / CBMC 6.11 / CaDiCaL are sound for the Rust MIR they compile (dev-profile semantics, overflow checks on)",
    "tracing macros are no-ops (patched crate in the harness workspace only): behaviour of real tracing with no subscriber",
    "smallvec::SmallVec and rustc_hash::FxHashMap are replaced IN THE KANI BUILD ONLY by sequence / finite-map models "
    "(/verif/stubs); every counterexample is re-executed natively on the real crates before it is reported",
]


def H(name, crate, tier="quick", desc="", bounds="", **kw):
    d = dict(name=name, crate=crate, tier=tier, desc=desc, bounds=bounds)
    d.update(kw)
    return d


PROPS = {}

PROPS["C06"] = dict(
    functions=["CongestionControl::handle_nak", "CongestionControl::handle_srtla_ack_specific_classic -> congestion::classic::handle_srtla_ack_specific",
               "CongestionControl::handle_srtla_ack_enhanced -> congestion::enhanced::handle_srtla_ack",
               "CongestionControl::perform_window_recovery -> congestion::enhanced::perform_window_recovery", "CongestionControl::reset",
               "SrtlaConnection::{handle_srtla_ack_specific, handle_nak, handle_srtla_ack_global, mark_for_recovery, reset_for_reconnect, new_registering}"],
    bounds="one step of each mutator from an arbitrary state: window in [1000,60000], in-flight in 0..=i32::MAX, every other "
           "CongestionControl field over its full type, RTT velocity over all f64 bit patterns (NaN/inf included), clock over all u64 "
           "(connection-level harness: clock <= 2^48, <= 2 outstanding packets); thorough adds a 3-event symbolic history",
    stubs=["alloc::fmt::format -> empty String (message text only)"],
    assumptions=["representation invariant assumed on the pre-state and re-asserted on the post-state: 1000 <= window <= 60000"],
    outside="'classic mode never applies time-based recovery' is decided by the shell harness c06s (housekeeping) when present; "
            "histories longer than one step are covered inductively through the asserted invariant",
    harnesses=[
        H("c06::c06_nak_step", "core", desc="NAK: -100 floored, never increases, fast recovery entered only at <=2000"),
        H("c06::c06_ack_classic_step", "core", desc="classic earned ACK: +29 iff in_flight*1000 > window, capped, never decreases"),
        H("c06::c06_ack_enhanced_step", "core", desc="enhanced earned ACK: same growth; fast recovery left only at >=12000"),
        H("c06::c06_recovery_step", "core", desc="time-based recovery: never decreases, capped, fast recovery left only at >=12000"),
        H("c06::c06_conn_events_step", "core", desc="same rules through SrtlaConnection API incl. global +1", bounds="<=2 outstanding packets, unwind 4"),
        H("c06::c06_resets", "core", desc="initial and post-teardown window 20000"),
        H("c06::c06_history_3", "core", tier="thorough", desc="3-event symbolic history, trace invariants", bounds="3 events"),
    ],
)

PROPS["C13"] = dict(
    functions=["SrtlaConnection::{effective_stall_stale_ms, is_stalled, update_stall_latch, silence_pull_window_ms, is_briefly_silent, "
               "update_silence_pull (via hook), get_smooth_rtt_ms}",
               "SrtlaConnection::{handle_srtla_ack_specific, handle_srt_ack, handle_nak, handle_srtla_ack_global, register_packet, keepalive_packet, "
               "perform_window_recovery, update_phase} (proof-stamp sites)"],
    bounds="one call from an arbitrary link state: every field the guard reads is symbolic (in-flight 0..=i32::MAX, threshold any i32 incl. "
           "negative, ceiling 0..2^48 incl. below the 1000 ms floor, clock/stamps 0..2^48, smoothed RTT none or any whole ms 0..5000; "
           "c13_effective_window_f64: any finite f64 RTT); temporal clause: 3 consecutive decisions with arbitrary state changes in between",
    stubs=["alloc::fmt::format -> empty String", "RttTracker::update_estimate -> no-op (c13_proof_stamp_sites only: RTT sampling is C14)"],
    assumptions=["clock values <= 2^48 ms", "trace harness starts with no rejoin run in progress (a run cannot pre-date the trace)"],
    outside="the keepalive-echo stamping site lives in the shell (process_uplink_packet) and is decided under C09 (c09_keepalive: the proof stamp changes "
            "only for an accepted echo with an outstanding probe; no other datagram type stamps it there); "
            "traces longer than 3 decisions follow inductively from c13_latch_step's run-bookkeeping facts",
    harnesses=[
        H("c13::c13_effective_window", "core", desc="effective staleness / pull windows equal the clamp formulas"),
        H("c13::c13_effective_window_f64", "core", desc="same with a fully symbolic finite f64 smoothed RTT"),
        H("c13::c13_latch_step", "core", desc="engage/hold/release conditions of one update_stall_latch call"),
        H("c13::c13_pull_step", "core", desc="engage/release conditions of one update_silence_pull call"),
        H("c13::c13_latch_trace_3", "core", desc="3-decision trace vs independent fresh-run monitor", bounds="3 decisions, unwind 4"),
        H("c13::c13_latch_trace_release_reachable", "core", desc="vacuity witness: a release within 3 decisions is reachable"),
        H("c13::c13_proof_stamp_sites", "core", desc="delivery proof stamped only by an earned SRTLA ACK"),
    ],
)

SEL_FUNCS = ["selection::select_connection_idx", "selection::apply_stall_gate", "selection::classic::select_connection",
             "selection::enhanced::{select_connection, in_flight_cap_exceeded, in_flight_cap_packets, cc_soft_cap_multiplier}",
             "SrtlaConnection::{is_timed_out, is_schedulable, get_score, phase_weight, update_stall_latch, update_silence_pull, "
             "is_stalled, is_briefly_silent, effective_stall_stale_ms, silence_pull_window_ms, get_cached_quality_multiplier}"]
SEL_BOUNDS = ("one selection over N fully symbolic links (every field the selectors/guards read: phase, connected, receive/proof stamps, "
              "in-flight 0..=i32::MAX, window 1000..=60000, stall latch/pull state, weak / loss-degraded flags, CC target any u64, "
              "smoothed RTT none or whole ms 0..5000; enhanced: bitrate 0..1e10, rtt_min any finite f64, cached quality multiplier in "
              "[0.35, 1.133]), symbolic ConfigSnapshot (timeout 1000..60000, any thresholds incl. negative in-flight threshold and "
              "ceiling below floor, guard/quality on or off), symbolic previous index incl. out of range, clock 1..2^48")

PROPS["C03"] = dict(
    functions=SEL_FUNCS,
    bounds=SEL_BOUNDS + "; N = 2 (quick), 3 (thorough; classic also 4)",
    stubs=["selection::enhanced::in_flight_cap_exceeded and cc_soft_cap_multiplier -> their exact tables on the 'leaf domain' (rtt_min 1000 ms, CC target "
           "in {0, 8001, 10^12} bit/s, measured rate in {0, target/2, target}); exactness of the tables is decided by c11_leaf_tables_exact, so "
           "counterexamples replay natively on the real functions (the same harness with the real leaves on unconstrained f64 inputs, "
           "c03_enhanced_n2_real_leaves, is kept in the source but did not finish in 50 min)"],
    assumptions=["clock values <= 2^48 ms", "enhanced harnesses: 50 ms quality cache fresh (exp() path decided separately in C11)"],
    outside="N > 4 links; the stale-quality-cache path (exp) in the enhanced selector is covered by C11's contract-stubbed harness",
    harnesses=[
        H("c03::c03_classic_n2", "core", desc="C03/C04(i)/C12(a) on one classic selection, 2 links", bounds="N=2"),
        H("c03::c03_enhanced_n2", "core", desc="C03/C04(i)/C12(a) on one enhanced selection, 2 links", bounds="N=2"),
        H("c11::c11_leaf_tables_exact", "core", desc="the leaf tables used by the enhanced harnesses are exact on their domain"),
        H("c03::c03_classic_n3", "core", tier="thorough", desc="same, 3 links", bounds="N=3", timeout=3000),
        H("c03::c03_classic_n4", "core", tier="thorough", desc="same, 4 links", bounds="N=4", timeout=3000),
        H("c03::c03_enhanced_n3", "core", tier="thorough", desc="same, 3 links (abstracted leaves)", bounds="N=3", timeout=3000),
    ],
)

PROPS["C15"] = dict(
    technique="Kani 0.68 (CBMC 6.11 + CaDiCaL) bounded symbolic execution of the real decoders/builders against a reference decoder; PLUS a second "
              "solver engine for the two list decoders: MIR -> bit-vector cut-point verification conditions decided by z3 (cvc5 cross-check in the "
              "thorough tier), inductive over loop iterations, translator validated concretely on every run; native replay of counterexamples",
    level_text="Symbolic checking of the real Rust code by two solver engines. (1) Kani compiles the functions listed in the evidence file to CBMC and "
               "CaDiCaL decides every assertion for ALL byte strings inside the stated length bounds. (2) For parse_srt_nak and parse_srtla_ack the "
               "function's MIR is translated to SMT bit-vector verification conditions between loop-head cut points; z3 shows that from ANY state "
               "satisfying the stated invariant no MIR assert can fail, the invariant is re-established and the count bound holds at return - i.e. "
               "for byte strings of every length, within 64-bit machine arithmetic. A pass is 'no violation within the stated bounds / under the "
               "stated environment model', not a proof about the compiler or the container.",
    functions=["srtla_protocol::{get_packet_type, get_srt_sequence_number, is_srt_data_retransmit, is_srtla_reg1, is_srtla_reg2, is_srtla_reg3, "
               "is_srtla_keepalive, is_srt_ack, extract_keepalive_timestamp, extract_keepalive_conn_info, parse_srt_ack, parse_srtla_ack, "
               "parse_srt_nak, create_reg1_packet, create_reg2_packet, create_keepalive_packet, create_keepalive_packet_ext, create_ack_packet}"],
    bounds="decoders: every byte string of 0..=24 bytes (ext. keepalive decoder 0..=40; REG predicates 256..=260), symbolic length and bytes, "
           "all 65536 type codes; NAK differential: 0..=16 bytes with ranges <= 3 wide, singles 0..=24 bytes; builders: every argument value, <= 4 ACK numbers",
    stubs=[],
    assumptions=["smallvec::SmallVec modelled as an array-backed sequence in the Kani build",
                 "SMT engine: slice length < 2^63 (Rust guarantee: isize::MAX), SmallVec::{new,len,push} = abstract counter, MIR as emitted by the "
                 "pre-installed nightly (rustc 1.97) with overflow checks on"],
    outside="Kani harnesses: byte strings of 25..1500 bytes and NAK ranges wider than 3 entries are outside their bound (the 1000-fold "
            "unrolling of the expansion loop nested in the list loop exhausts CBMC's memory). That gap is closed FOR THE COUNT AND PANIC-FREEDOM "
            "CLAUSES ONLY by the second engine (smt/nakcap.py: MIR of parse_srt_nak / parse_srtla_ack -> bit-vector VCs, loops cut at their heads, "
            "z3): 'no MIR assert can fail, at most 1000 range-expanded entries, at most one single entry per 4 bytes' for byte strings of EVERY "
            "length < 2^63 and every range width. Element VALUES of NAK lists beyond 16 bytes / 3-wide ranges, and of the other list decoders "
            "beyond 24 bytes, remain outside the claim. In the SMT engine SmallVec is an abstract length counter and the packet-type test in "
            "the prologue is an unconstrained boolean (over-approximation).",
    harnesses=[
        H("c15::c15_fixed_decoders_24", "proto", desc="type/seq/retransmit/REG3/keepalive ts/SRT ACK vs reference decoder", bounds="len 0..=24"),
        H("c15::c15_conn_info_decoder_40", "proto", desc="extended keepalive decoder vs literal offsets", bounds="len 0..=40"),
        H("c15::c15_reg_predicates_258", "proto", desc="REG1/REG2 exact length 258", bounds="len 256..=260"),
        H("c15::c15_srtla_ack_decoder_24", "proto", desc="SRTLA ACK list vs reference", bounds="len 0..=24"),
        H("c15::c15_nak_decoder_16", "proto", desc="NAK list vs reference decoder (singles + ranges)", bounds="len 0..=16, ranges <= 3 wide"),
        H("c15::c15_nak_singles_24", "proto", desc="NAK singles vs layout", bounds="len 0..=24, no range openers"),
        H("c15::c15_build_reg1_reg2", "proto", desc="REG1/REG2 builders: 258 bytes, type + id"),
        H("c15::c15_build_keepalives", "proto", desc="keepalive builders round-trip, literal layout"),
        H("c15::c15_build_ack", "proto", desc="SRTLA ACK builder round-trip", bounds="<= 4 numbers"),
        H("smt::nak_cap_all_lengths", "smt", script="nakcap.py", args=["--fn", "parse_srt_nak"],
          desc="MIR->SMT: parse_srt_nak never panics, <= 1000 range-expanded entries, <= 1 single entry per 4 bytes",
          bounds="every byte string of length < 2^63 (inductive cut-point VCs: no unrolling bound); 64-bit usize"),
        H("smt::srtla_ack_count_all_lengths", "smt", script="nakcap.py", args=["--fn", "parse_srtla_ack"],
          desc="MIR->SMT: parse_srtla_ack never panics, <= 1 entry per 4 bytes",
          bounds="every byte string of length < 2^63 (inductive cut-point VCs); 64-bit usize"),
    ],
)

PROPS["C04"] = dict(
    functions=SEL_FUNCS + ["priority::select_best_quality_eligible_idx", "sender::packet_handler::{forward_via_connection, send_stall_probes} (async fns, "
               "each polled once as its own future)", "SrtlaConnection::{queue_data_packet, stall_probe_due}", "SequenceTracker::{insert, get}"],
    bounds=SEL_BOUNDS + "; N = 2 (quick), 3 (thorough; classic also 4)",
    stubs=["selection::enhanced::in_flight_cap_exceeded and cc_soft_cap_multiplier -> their exact tables on the leaf domain (see C03 / "
           "c11_leaf_tables_exact)"],
    assumptions=["clock values <= 2^48 ms", "enhanced harnesses: 50 ms quality cache fresh"],
    outside="Decided: (i) whatever select_connection_idx returns - normal scheduling or score hysteresis - and (ii) whatever the priority override's "
            "selector select_best_quality_eligible_idx returns when called right after it (same order as the call site) has completed registration "
            "since its last reset, is not timed out and is not stall-gated. NOT decided: the condition at the call site in the shell's handle_srt_packet "
            "(data packet && enhanced mode && (critical window || retransmit flag) && target != scheduler's choice) and pre-registration forwarding. "
            "Also decided, on the real shell pieces: forward_via_connection queues the unique copy on exactly the chosen uplink, and send_stall_probes "
            "gives an extra copy only to stall-gated connected uplinks at the 1-in-100 cadence ('at most ... the sparse duplicate probes'). Their "
            "COMPOSITION is not decided - the harness over the real handle_srt_packet (hk/shell/src/c04.rs, asserting all of it) still exhausts "
            "CBMC's memory because that function awaits nested async fns (DESIGN.md 2.5). Defect F5 was found at exactly that call site and repaired. "
            "Fault histories are covered inductively through the arbitrary pre-state.",
    harnesses=[
        H("c03::c03_classic_n2", "core", desc="classic: selected uplink AND the priority-override target are registered, not timed out, not stall-gated; the target has the best cached quality among eligible links", bounds="N=2"),
        H("c03::c03_enhanced_n2", "core", desc="enhanced (incl. hysteresis hold): same", bounds="N=2"),
        # the two shell pieces that put a datagram onto uplinks, each polled once as its own future (DESIGN.md 2.5)
        H("c04p::c04_forward_unique_copy_sel0", "shell", desc="real forward_via_connection: exactly the chosen uplink queues the unique copy once; the tracker remembers it as the carrier; choice recorded; nothing else touched", bounds="2 links, chosen uplink 0, datagram 1..12 B", timeout=1200),
        H("c04p::c04_forward_unique_copy_sel1", "shell", desc="same, chosen uplink 1", bounds="2 links, datagram 1..12 B", timeout=1200),
        H("c04p::c04_probes_only_on_gated_sel0", "shell", desc="real send_stall_probes: an extra copy goes only to a stall-gated AND connected uplink, only on its 100th opportunity, never to the carrier, never into the tracker; a due probe is sent", bounds="2 links, carrier 0, data packet 4..12 B", timeout=1200),
        H("c04p::c04_probes_only_on_gated_sel1", "shell", desc="same, carrier 1", bounds="2 links, data packet 4..12 B", timeout=1200),
        H("c03::c03_classic_n3", "core", tier="thorough", bounds="N=3", timeout=3000),
        H("c03::c03_enhanced_n3", "core", tier="thorough", bounds="N=3", timeout=3000),
    ],
)

PROPS["C08"] = dict(
    functions=["SrtlaConnection::is_timed_out", "ReconnectionState::{should_attempt_reconnect, backoff_delay, record_attempt, mark_success}",
               "SrtlaConnection::{reset_for_reconnect, mark_for_recovery, clear_pre_registration_state, reset_core_state}",
               "BatchSender::reset, CongestionControl::reset, RttTracker::reset, BitrateTracker::reset"],
    bounds="one call from an arbitrary link / reconnection state: every field symbolic (failure count any u32, clocks 0..2^48, timeout "
           "1000..60000); reset harness: <= 2 outstanding and <= 2 queued packets",
    stubs=[],
    assumptions=["clock values <= 2^48 ms", "decision clock >= 1 (0 is the 'never' sentinel)"],
    outside="'connected again within 30 s once the path delivers' and 'survivors keep carrying throughout' are liveness properties of the whole "
            "event loop with real sockets, timers and a receiver: not encodable (the per-decision part of the latter is C03). The housekeeping "
            "loop's use of these predicates is decided by the shell harness when present.",
    harnesses=[
        H("c08::c08_timed_out_matches_rule", "core", desc="is_timed_out == documented rule; independent of routing penalties"),
        H("c08::c08_retry_policy", "core", desc="retry spacing >= 1 s / 5 s, back-off table, cap 120 s, retries never stop"),
        H("c08::c08_record_attempt_spacing", "core", desc="spacing after a recorded attempt; saturating failure counter"),
        H("c08::c08_reset_poststates", "core", desc="teardown/REG3 post-states: default window, zero in-flight, registering/warming, guard state clear"),
    ],
)

PROPS["C10"] = dict(
    functions=SEL_FUNCS + ["congestion::classic::handle_srtla_ack_specific", "SrtlaConnection::handle_srtla_ack_global", "CongestionControl::handle_nak"],
    bounds=SEL_BOUNDS + "; 0..2 queued packets per link; N = 2 (quick), 3 and 4 (thorough); window rules: all i32 in-flight values",
    stubs=["alloc::fmt::format -> empty String"],
    assumptions=["clock values <= 2^48 ms"],
    outside="'no time-based recovery in classic' (housekeeping) and 'every packet kind' (since the repair of F5 the retransmit / critical-window override "
            "in handle_srt_packet is switched off in classic mode by one condition at the call site) are shell clauses that are NOT decided by the solver; the per-datagram ORDER of the +29 / +1 rules is decided for SRTLA ACK lists of two numbers over two "
            "links; closed-loop histories are covered inductively (the reference is a function of the current state)",
    harnesses=[
        H("c10::c10_classic_reference_n2", "core", desc="classic choice == reference argmax, guard off", bounds="N=2"),
        H("c06::c06_ack_classic_step", "core", desc="+29 iff in_flight*1000 > window (unbounded integers), capped"),
        H("c06::c06_conn_events_step", "core", desc="global +1 iff connected and ever heard; -100 per charged NAK; bounds"),
        H("c06::c06_nak_step", "core", desc="-100 floored at 1000"),
        H("c10::c10_get_score_formula", "core", desc="get_score == window / (in-flight + queued + 1), -1 when disconnected", timeout=1500),
        H("c10::c10_classic_reference_n3", "core", tier="thorough", bounds="N=3", timeout=3000),
        H("c10::c10_classic_reference_n4", "core", tier="thorough", bounds="N=4", timeout=3000),
        H("c02s::c10_window_evolution_two_acks", "shell", desc="process_connection_events, classic mode, a datagram with TWO SRTLA ACK numbers: windows and in-flight equal the reference rules "
          "applied per acknowledged packet IN ORDER (owner -1, +29 iff in-flight x 1000 > window, then +1 on every connected link that has heard anything; cap 60000)",
          bounds="2 links, each number held by exactly one link, any windows / in-flight", timeout=1500),
    ],
)

PROPS["C11"] = dict(
    functions=["selection::enhanced::select_connection (through select_connection_idx)", "selection::calculate_quality_multiplier "
               "(-> quality::calculate_quality_multiplier_uncached, calculate_rtt_bonus)", "selection::enhanced::in_flight_cap_packets",
               "SrtlaConnection::{get_cached_quality_multiplier, phase_weight, is_timed_out, is_schedulable}", "apply_stall_gate"],
    bounds="ranges: every link state and clock (quality multiplier), every u64 target and f64 RTT incl. NaN/inf (BDP cap). Selection oracle: 2 links "
           "(thorough 3), every gate/phase/eligibility field symbolic, any config, any previous index; score factors drawn from a grid - quality in "
           "{0.35, 0.5, 1.0, 1.1, 1.133}, soft cap in {0.1, 0.5, 1.0} (leaf domain), capacity score in {0, 10, 11, 20, 22, 1000} (contains the range "
           "extremes, ties and pairs exactly 10 % apart); soft-cap range: every target / measured rate",
    stubs=["f64::exp -> contract (x <= 0 -> (0, 1])", "SrtlaConnection::get_score -> deterministic abstraction over an otherwise unused symbolic "
           "field (real formula: c10_get_score_formula)", "enhanced::in_flight_cap_exceeded, enhanced::cc_soft_cap_multiplier -> exact tables on the "
           "leaf domain (c11_leaf_tables_exact)"],
    assumptions=["clock values <= 2^48 ms", "quality cache fresh in the selection harness (the cached multiplier is what the selector multiplies by)"],
    outside="fully symbolic f64 score factors in the selection oracle (SAT did not finish on two symbolic product pipelines); N > 3",
    harnesses=[
        H("c11::c11_quality_multiplier_range", "core", desc="quality multiplier finite and within [0.35, 1.1 x 1.03] for every state/clock"),
        H("c11::c11_in_flight_cap_range", "core", desc="BDP in-flight cap >= 1, defined for every input"),
        H("c11::c11_soft_cap_range", "core", desc="soft-cap factor within [0.1, 1] for every target / measured rate"),
        H("c11::c11_leaf_tables_exact", "core", desc="the tables standing in for the two f64 leaves equal the real functions on the leaf domain"),
        # thorough only: ~11 min (a fresh-sandbox run of the quick tier under load stopped it at 900 s); the quick tier keeps the
        # range / leaf harnesses here and the enhanced selection harness c03_enhanced_n2 under C03 / C04 / C12
        H("c11b::c11_enhanced_oracle_n2", "core", tier="thorough", desc="enhanced choice == recomposed oracle: gate precedence, 0.8 warming, 0.02 penalty, 1.10 hysteresis, capped link never chosen while an unconstrained one exists, re-run stability", bounds="N=2, grid", timeout=2400),
        H("c11b::c11_enhanced_oracle_n3", "core", tier="thorough", desc="same, 3 links", bounds="N=3, grid", timeout=6000),
    ],
)

PROPS["C12"] = dict(
    functions=SEL_FUNCS,
    bounds=SEL_BOUNDS + "; N = 2 (quick), 3 (thorough)",
    stubs=[],
    assumptions=["clock values <= 2^48 ms", "enhanced harnesses: 50 ms quality cache fresh"],
    outside="histories of selections are covered inductively: each selection starts from an arbitrary state (any latch/pull history). The "
            "guard-off == clean-history twin is decided for classic mode only: the enhanced twin (c12_guard_off_enhanced_n2, kept in the source) is a "
            "relational query over two f64 score pipelines that did not finish in 50 min; for enhanced mode the clause rests on 'guard off clears "
            "every stall field' (decided in c03_enhanced_n2) plus the selector reading no other guard-private state",
    harnesses=[
        H("c03::c03_classic_n2", "core", desc="projection of liveness/accounting state unchanged by a classic selection"),
        H("c03::c03_enhanced_n2", "core", desc="projection unchanged by an enhanced selection"),
        H("c10::c12_guard_off_classic_n2", "core", desc="guard off: flags cleared, decision == decision with clean stall history"),
        H("c13::c13_latch_step", "core", desc="latch update touches guard-private fields only"),
        H("c10::c12_guard_off_classic_n3", "core", tier="thorough", bounds="N=3", timeout=3000),
        H("c03::c03_classic_n3", "core", tier="thorough", bounds="N=3", timeout=3000),
    ],
)

PROPS["C14"] = dict(
    functions=["SrtlaConnection::{keepalive_packet, needs_keepalive, needs_rtt_measurement, get_smooth_rtt_ms}",
               "RttTracker::{handle_keepalive_response, record_keepalive_sent, needs_measurement}", "KalmanFilter::update",
               "srtla_protocol::{create_keepalive_packet_ext, extract_keepalive_timestamp, extract_keepalive_conn_info}"],
    bounds="frame: any link state (window, in-flight, loss count, bitrate 0..1e10, RTT whole ms 0..5000, any 64-bit conn id), clock 1..2^48; "
           "echo filter: every echo of 0..=16 bytes, any clocks; Kalman: one update from |x|,|v| <= 1e6, covariances in [0,1e6], sample 1..10000 ms",
    stubs=["RttTracker::update_estimate -> sample recorder (c14_echo_filter only; the real estimator is run in c14_smooth_rtt_sane)"],
    assumptions=["clock values <= 2^48 ms", "Kalman pre-state bounded and covariance entries non-negative (stated bound)"],
    outside="the cadence clause is decided for its per-tick part only (c14_cadence_ticks: the keepalive statements of a housekeeping pass in call-site order, passes <= 1000 ms apart); "
            "the tokio interval firing every 1000 ms, timer jitter and the socket send are I/O and outside the claim. Echo bytes after byte 16 are ignored by the parser (bound: 16 bytes).",
    harnesses=[
        H("c14::c14_keepalive_frame", "core", desc="38-byte frame, literal layout, telemetry = link state, probe arming"),
        H("c14::c14_need_predicates", "core", desc="needs_keepalive / needs_rtt_measurement equal their rules"),
        H("c14::c14_cadence_ticks", "core", desc="two housekeeping passes <= 1000 ms apart over a connected link (keepalive statements in call-site order, arbitrary sends in between): last keepalive < 1 period old after each pass, gap between consecutive keepalives < 2 periods"),
        H("c14::c14_echo_filter", "core", desc="sample only from an outstanding probe's echo with 0 < RTT <= 10 s; duplicates ignored"),
        H("c14::c14_smooth_rtt_sane", "core", desc="smoothed RTT >= 0 and finite after a real Kalman update", timeout=1500),
    ],
)

PROPS["C02"] = dict(
    functions=["SrtlaConnection::{register_packet, handle_srt_ack, handle_nak, handle_srtla_ack_specific, mark_for_recovery, "
               "reset_for_reconnect, clear_pre_registration_state}", "CongestionControl::handle_nak",
               "sender::packet_handler::process_connection_events (async fn, relay send cut by verif-model, polled once)"],
    bounds="one event from an arbitrary link whose log holds any set of <= 3 distinct sequence numbers above an arbitrary cumulative-ACK "
           "mark (representation invariant, re-asserted after every event); all sequence numbers (outstanding, mark, event argument) range "
           "over a window of 256 consecutive values of the 31-bit space - three window positions: 0, 2^31-256 and a VERIF_SEED-chosen base; "
           "unwind 67 covers the whole <= 64 fast path; thorough: ACK order independence and a 4-event symbolic history vs a 4-slot set model",
    stubs=["alloc::fmt::format -> empty String", "RttTracker::update_estimate -> no-op (RTT sampling is not part of C02)"],
    assumptions=["packet_log modelled as a 4-entry finite map in the Kani build", "sequence numbers within one 256-wide window per query (no wrap)"],
    outside="wrap-around of the 31-bit space; sequence numbers more than 255 apart in one query; more than 3 simultaneously outstanding "
            "numbers per link; multi-link dispatch (process_connection_events) is decided for ONE acknowledged number per datagram over 3 links (SRTLA "
            "ACK) / 2 links (cumulative ACK); NAK dispatch is C05",
    harnesses=[
        H("c02::c02_register_step_low", "core", desc="send: distinct numbers counted once; INV preserved (retransmission at/below the ACK mark)", env={"VERIF_MAP_CAP": "4"}),
        H("c02::c02_cumulative_ack_step_low", "core", desc="cumulative ACK == set model for any mark/ack spacing (fast and slow path)", env={"VERIF_MAP_CAP": "4"}, timeout=1500, tier="thorough"),
        H("c02::c02_nak_and_srtla_ack_step_low", "core", desc="NAK / SRTLA ACK retire exactly the held number; otherwise untouched", env={"VERIF_MAP_CAP": "4"}, tier="thorough"),
        H("c02::c02_register_step_high", "core", desc="send: distinct numbers counted once; INV preserved (retransmission at/below the ACK mark)", env={"VERIF_MAP_CAP": "4"}),
        H("c02::c02_cumulative_ack_step_high", "core", desc="cumulative ACK == set model for any mark/ack spacing (fast and slow path)", env={"VERIF_MAP_CAP": "4"}, timeout=1500, tier="thorough"),
        H("c02::c02_nak_and_srtla_ack_step_high", "core", desc="NAK / SRTLA ACK retire exactly the held number; otherwise untouched", env={"VERIF_MAP_CAP": "4"}, tier="thorough"),
        H("c02::c02_register_step_mid", "core", desc="send: distinct numbers counted once; INV preserved (retransmission at/below the ACK mark)", env={"VERIF_MAP_CAP": "4"}),
        H("c02::c02_cumulative_ack_step_mid", "core", desc="cumulative ACK == set model for any mark/ack spacing (fast and slow path)", env={"VERIF_MAP_CAP": "4"}, timeout=1500),
        H("c02::c02_nak_and_srtla_ack_step_mid", "core", desc="NAK / SRTLA ACK retire exactly the held number; otherwise untouched", env={"VERIF_MAP_CAP": "4"}),
        H("c02::c02_reset_step_mid", "core", desc="resets retire everything", env={"VERIF_MAP_CAP": "4"}),
        H("c02::c02_take_batch_step_mid", "core", desc="flush of two data packets in any order relative to each other and to the ACK mark: both outstanding, INV re-established", env={"VERIF_MAP_CAP": "4"}),
        H("c02::c02_take_batch_step_low", "core", tier="thorough", desc="same, low window", env={"VERIF_MAP_CAP": "4"}),
        H("c02::c02_take_batch_step_high", "core", tier="thorough", desc="same, high window", env={"VERIF_MAP_CAP": "4"}),
        H("c02::c02_ack_order_independent_mid", "core", tier="thorough", desc="ACK a;b == ACK max(a,b)", env={"VERIF_MAP_CAP": "4"}, timeout=3000),
        H("c02::c02_history_4_mid", "core", tier="thorough", desc="4-event history vs set model", env={"VERIF_MAP_CAP": "4"}, timeout=3000),
        # multi-link dispatch through the real async shell function (polled once, DESIGN.md 2.5)
        H("c02s::c02_srtla_ack_dispatch_idx0", "shell", desc="process_connection_events, one SRTLA ACK over 3 links, arrival link 0: retired on the arrival link if it holds the packet, "
          "else on exactly ONE other holder (the lowest-numbered); every other link and every other number untouched; the owner earns delivery proof", bounds="3 links x any subset of 4 distinct numbers", timeout=1500),
        H("c02s::c02_srtla_ack_dispatch_idx1", "shell", desc="same, arrival link 1", bounds="3 links x any subset of 4 distinct numbers", timeout=1500),
        H("c02s::c02_cumulative_ack_every_link", "shell", desc="process_connection_events, one cumulative SRT ACK: retires everything at or below it on EVERY link, in-flight follows", bounds="2 links x any subset of 4 distinct numbers, any ACK number", timeout=1500),
    ],
)

PROPS["C07"] = dict(
    functions=["SrtlaRegistrationManager::{new, process_registration_packet, handle_reg_ngp, handle_reg2, handle_reg3, handle_reg_err, "
               "reg_driver_pending_sends, reg1_if_ngp_immediate, build_reg1_for, build_reg2, clear_pending_if_timed_out, pending_reg2_idx}",
               "srtla_protocol::{create_reg1_packet, create_reg2_packet, get_packet_type}"],
    bounds="one event (driver tick / inbound REG_NGP, REG2 of 2..260 bytes, REG3, REG_ERR / re-send) from an ARBITRARY manager state over 3 "
           "uplinks (pending attempt, deadlines, active count 0..3, broadcast flag, target, retry time, probing state all symbolic; symbolic "
           "256-byte id); clocks 1..2^48; bounded history: 4 adversarial events from a fresh manager with a ghost set of unanswered REG1s",
    stubs=["rand::rng() -> nondeterministic bytes (the id is arbitrary)"],
    assumptions=["clock values <= 2^48 ms", "history harness starts after RTT probing completed"],
    outside="'an uplink becomes connected only on a REG3 received on that uplink; REG_ERR disconnects' is a shell clause "
            "(process_uplink_packet) decided by the shell harness when present; RTT probing (start_probing / check_probing_complete) "
            "chooses only WHICH uplink gets the first REG1 and is not part of the statement",
    harnesses=[
        H("c07::c07_driver_tick", "core", desc="timeout sweep + driver: REG1 only if nothing registered and nothing pending; one REG2 broadcast round; id carried"),
        H("c07::c07_inbound_packet", "core", desc="REG_NGP/REG2/REG3/REG_ERR from any state: REG2 accepted iff from the pending uplink and >= 258 bytes"),
        H("c07::c07_resend_paths", "core", desc="housekeeping re-send keeps the pending uplink; frames carry the id"),
        H("c07::c07_history_4", "core", desc="4-event adversarial history with ghost of unanswered REG1s", bounds="4 events", timeout=1500),
    ],
)

PROPS["C01"] = dict(
    functions=["BatchSender::{new, queue_packet, drain, reset, needs_time_flush, has_queued_packets, queued_count, set_regime, regime}",
               "BatchRegime::{from_bps, batch_size}", "SrtlaConnection::{queue_data_packet, take_batch, register_packet, stall_probe_due}",
               "BitrateTracker::update_on_send"],
    bounds="sequences of exactly n datagrams, n in {0,1,2,4,5} (quick) + {16,17} (thorough; 32 / 33 datagrams produce solver errors after 7 min and are not registered), each of 1..4 symbolic bytes with symbolic "
           "sequence number and queue time, regime concrete per instance (all three occur, below / at / one past the threshold); flush predicates at depths {0,3,15} (+{20,31}); take_batch with 3 queued datagrams; "
           "probe counter any value 0..99",
    stubs=[],
    assumptions=["payload <= 4 bytes per datagram in the Kani build (SmallVec copy is length-generic; model capacity 40 elements)",
                 "clock values <= 2^48 ms"],
    outside="the async shell path (handle_srt_packet -> forward_via_connection -> send_connection_batch -> BatchUdpSocket sendmmsg, "
            "flush_all_batches on the tokio timer, send-failure -> mark_for_recovery) ends in socket syscalls that Kani cannot execute: "
            "'transmitted on exactly one uplink' and the 15 ms tick itself are decided only up to the queue/flush decision, i.e. every "
            "datagram accepted by a link's queue is handed to the flush exactly once, in order, unchanged, after at most 32 datagrams or the "
            "first timer check >= 15 ms after the previous flush. Which link a datagram is queued on is C03/C04.",
    harnesses=[
        H("c01::c01_fifo_0_normal", "core", desc="queue then drain == same datagrams, order, bytes/seq/time; flush request at the threshold; nothing dropped past it; no duplicates; reset empties", bounds="exactly 0 datagrams, regime normal"),
        H("c01::c01_fifo_1_low", "core", desc="queue then drain == same datagrams, order, bytes/seq/time; flush request at the threshold; nothing dropped past it; no duplicates; reset empties", bounds="exactly 1 datagrams, regime low activity"),
        H("c01::c01_fifo_2_normal", "core", desc="queue then drain == same datagrams, order, bytes/seq/time; flush request at the threshold; nothing dropped past it; no duplicates; reset empties", bounds="exactly 2 datagrams, regime normal"),
        H("c01::c01_fifo_4_low", "core", desc="queue then drain == same datagrams, order, bytes/seq/time; flush request at the threshold; nothing dropped past it; no duplicates; reset empties", bounds="exactly 4 datagrams, regime low activity"),
        H("c01::c01_fifo_5_low", "core", desc="queue then drain == same datagrams, order, bytes/seq/time; flush request at the threshold; nothing dropped past it; no duplicates; reset empties", bounds="exactly 5 datagrams, regime low activity (one past the threshold)"),
        H("c01::c01_fifo_5_high", "core", desc="queue then drain == same datagrams, order, bytes/seq/time; flush request at the threshold; nothing dropped past it; no duplicates; reset empties", bounds="exactly 5 datagrams, regime high load"),
        H("c01::c01_flush_predicates_d0", "core", desc="timer flush iff non-empty and >=15 ms; threshold of the current regime; <= 32", bounds="depth 0"),
        H("c01::c01_flush_predicates_d3", "core", desc="same", bounds="depth 3"),
        H("c01::c01_flush_predicates_d15", "core", desc="same", bounds="depth 15"),
        H("c01::c01_regime_from_bitrate", "core", desc="regime thresholds for every f64 bitrate"),
        H("c01::c01_take_batch_registers", "core", desc="flush registers exactly the data packets; stamps last_sent", bounds="3 datagrams"),
        H("c01::c01_probe_cadence_step", "core", desc="one probe per 100 calls from any counter state"),
        H("c01::c01_flush_predicates_d20", "core", tier="thorough", desc="same", bounds="depth 20", timeout=3000),
        H("c01::c01_flush_predicates_d31", "core", tier="thorough", desc="same", bounds="depth 31", timeout=3000),
        H("c01::c01_fifo_16_normal", "core", tier="thorough", desc="same", bounds="exactly 16 datagrams, regime normal", timeout=3000),
        H("c01::c01_fifo_17_normal", "core", tier="thorough", desc="same", bounds="exactly 17 datagrams, regime normal (one past)", timeout=3000),
        H("c01::c01_fifo_17_low", "core", tier="thorough", desc="same", bounds="exactly 17 datagrams, regime low activity", timeout=3000),
    ],
)

PROPS["C05"] = dict(
    functions=["sender::packet_handler::attribute_nak (via sender::verif_hooks)", "SequenceTracker::{new, insert, get, remove_connection}, "
               "SequenceTrackingEntry::{is_valid, is_expired}", "SrtlaConnection::handle_nak", "CongestionControl::handle_nak"],
    bounds="one NAK (then the same NAK again) over 2 links: any 31-bit sequence number, any clock, the tracker slot of that number holds an "
           "arbitrary entry written through the real insert (same number <= 5000 ms old naming link 0 / link 1 / a removed link; or no valid "
           "entry: empty, displaced by seq + k*SIZE for k in 1..3, or expired by >= 1 ms); each link independently holds the number or not plus "
           "one unrelated packet; arbitrary window / loss state. One harness instance per tracker-named link (no symbolic slice index).",
    stubs=["alloc::fmt::format -> empty String"],
    assumptions=["SequenceTracker ring instantiated with 16 slots in the Kani build (feature verif-model size seam; same source, collisions at "
                 "seq + 16 instead of seq + 16384); native replays run on the 16384-slot build", "clock values <= 2^48 ms",
                 "packet_log modelled as a 4-entry finite map"],
    outside="NAK *lists* (the per-entry loop in process_connection_events and range expansion) beyond 'same NAK twice'; more than 2 links; "
            "the tracker insert sites in forward_via_connection (decided by the C04 shell harness when present); the instance with the remembered "
            "carrier at slice position 1 (spurious CBMC failure, see DESIGN.md)",
    harnesses=[
        H("c05::c05_n2_named0", "shell", desc="tracker remembers link 0 as carrier", timeout=1500),
        H("c05::c05_n2_removed", "shell", desc="tracker names a link that was removed", timeout=1500),
        H("c05::c05_n2_norecord", "shell", desc="no valid record: empty / collision / expired", timeout=1500),
        H("c05::c05_fallback_two_holders", "shell", desc="minimal fallback instance: two holders, no record -> only the first is charged"),
        H("c19::c19_tracker_purge", "shell", desc="remove_connection purges exactly the removed link's records"),
        # what the tracker is told when a datagram is routed (C05's premise), on the real shell function (DESIGN.md 2.5)
        H("c04p::c04_forward_unique_copy_sel0", "shell", desc="real forward_via_connection: after routing a data packet the tracker names the NEW carrier, whatever the slot held before "
          "(the same number carried by another uplink = re-routed retransmission, a colliding older number, nothing)", bounds="2 links, datagram 1..12 B", timeout=1200),
        H("c04p::c04_forward_unique_copy_sel1", "shell", desc="same, chosen uplink 1", bounds="2 links, datagram 1..12 B", timeout=1200),
    ],
)

PROPS["C18"] = dict(
    functions=["DynamicConfig::{from_cli, snapshot, mode, set_mode, set_quality_enabled, set_stall_deselect, set_conn_timeout_ms, clone}",
               "ConfigSnapshot::effective_quality_enabled", "SchedulingMode::{as_u8, from_u8, is_classic}"],
    bounds="any start-up configuration, any sequence of 3 setter calls with arbitrary arguments (timeout any u64), against a 6-field model",
    stubs=[],
    assumptions=["single-threaded (Kani has no threads); atomics are sequentially executed"],
    outside="THE JSON-RPC LAYER IS NOT DECIDED: totality and response framing for arbitrary input lines, error codes -32700/-32600/-32601/"
            "-32602, notifications, and stdin/socket equivalence all go through serde_json::from_str / Value / to_string (a third-party "
            "parser with input-dependent loops, heap maps and string formatting), which is out of reach of CBMC beyond a handful of bytes; "
            "concurrent setters/readers are out of reach (no threads in Kani). Only 'a successful set_* is visible in the next snapshot' and "
            "'the timeout is clamped to 1000..60000 and echoed as applied' are claimed, at the DynamicConfig level that the dispatcher calls.",
    harnesses=[
        H("c18::c18_setters_take_effect", "shell", desc="3 arbitrary setter calls vs model; clamp + echo"),
        H("c18::c18_mode_codes", "shell", desc="mode <-> u8 conversions"),
    ],
)


PROPS["C16"] = dict(
    functions=["LinkCongestionState::{tick, update_loss_ewma, update_backoff_efficacy, pick_climb_mode, evict_expired, loss_permille}"],
    bounds="one tick from an arbitrary controller state: pre-tick target from the grid {100000, 117000, 1000000, 150000000, 200000000} (symbolic in the "
           "bootstrap / hold / loss-latch harnesses), measured throughput any value up to 2^40, any state / latches / counters (under the "
           "counter invariants backoff_ticks <= 3, uncongestive_ticks < 30, fast_recovery_ticks <= 5), at most one loss sample with any u32 "
           "sent / lost counts and any age, loss average any value in [0, 1], measured throughput any u64, clock 1..2^48; RTT inputs from a grid "
           "(none yet / inflation 1.0, 1.6, 2.0, 4.5; variance stable / jittery)",
    stubs=["f64::exp -> contract (x <= 0 -> (0, 1])"],
    assumptions=["counter invariants above (each counter is reset by the code before it can exceed its bound)", "clock values <= 2^48 ms",
                 "'initial seeding' = the first tick after bootstrap (previous state Bootstrap)"],
    outside="record_rtt / observe_traffic / record_loss (how the inputs of tick are accumulated, incl. counter resets after reconnect) and "
            "LinkCcController::tick_all (std HashMap garbage collection of vanished links) are not decided; more than one loss sample in the window; "
            "fully symbolic RTT values",
    harnesses=[
        H("c16::c16_target_noloss_bootstrap", "core", desc="one tick: no RTT yet: bootstrap, floor (symbolic target)", timeout=3000),
        H("c16::c16_target_noloss_hold", "core", desc="one tick: no loss, inflation 1.6: hold (symbolic target)", timeout=3000),
        H("c16::c16_climb_floor", "core", desc="one tick: no loss, flat RTT from target 100000: climb <= 6 %, <= 2x measured; seeding only on the first tick after bootstrap", timeout=3000),
        H("c16::c16_climb_117k", "core", desc="one tick: no loss, flat RTT from target 117000: climb <= 6 %, <= 2x measured; seeding only on the first tick after bootstrap", timeout=3000),
        H("c16::c16_climb_1m", "core", desc="one tick: no loss, flat RTT from target 1000000: climb <= 6 %, <= 2x measured; seeding only on the first tick after bootstrap", timeout=3000),
        H("c16::c16_climb_150m", "core", desc="one tick: no loss, flat RTT from target 150000000: climb <= 6 %, <= 2x measured; seeding only on the first tick after bootstrap", timeout=3000),
        H("c16::c16_climb_ceiling", "core", desc="one tick: no loss, flat RTT from target 200000000: climb <= 6 %, <= 2x measured; seeding only on the first tick after bootstrap", timeout=3000),
        H("c16::c16_drain_floor", "core", desc="one tick: no loss, inflation 2.0 from target 100000: drain entry cuts to 75 % once", timeout=3000),
        H("c16::c16_drain_117k", "core", desc="one tick: no loss, inflation 2.0 from target 117000: drain entry cuts to 75 % once", timeout=3000),
        H("c16::c16_drain_1m", "core", desc="one tick: no loss, inflation 2.0 from target 1000000: drain entry cuts to 75 % once", timeout=3000),
        H("c16::c16_drain_ceiling", "core", desc="one tick: no loss, inflation 2.0 from target 200000000: drain entry cuts to 75 % once", timeout=3000),
        H("c16::c16_backoff_floor", "core", desc="one tick: loss sample, flat RTT from target 100000: back-off to 85 %, never below delivered, never raising", timeout=3000),
        H("c16::c16_backoff_117k", "core", desc="one tick: loss sample, flat RTT from target 117000: back-off to 85 %, never below delivered, never raising", timeout=3000),
        H("c16::c16_backoff_1m", "core", desc="one tick: loss sample, flat RTT from target 1000000: back-off to 85 %, never below delivered, never raising", timeout=3000),
        H("c16::c16_backoff_150m", "core", desc="one tick: loss sample, flat RTT from target 150000000: back-off to 85 %, never below delivered, never raising", timeout=3000),
        H("c16::c16_backoff_ceiling", "core", desc="one tick: loss sample, flat RTT from target 200000000: back-off to 85 %, never below delivered, never raising", timeout=3000),
        H("c16::c16_lossy_drain_1m", "core", desc="one tick: loss sample, inflation 4.5 from target 1000000", timeout=3000),
        H("c16::c16_loss_latch_rules", "core", desc="loss-degraded latches only after > 0.55 for 4 s, clears only < 0.25; average stays in [0,1]", timeout=1500),
    ],
)

PROPS["C17"] = dict(
    functions=["WeakLinkFilter::classify (with derive_max_delay_budget, target_*_delay_ms, pick_tier)", "SrtlaConnection::{get_smooth_rtt_ms, queue_building_suspected}",
               "RttTracker::{queue_building_suspected, rtt_gradient_ms}"],
    bounds="one classify() over N = 2 links (thorough: 3) from an arbitrary hysteresis memory per link (absent = link joined since the last tick; "
           "else previous verdict, delay streak over all u32, share-weak streak 0..14, probation 0..3), optional stale memory of a link that has "
           "left, any connectivity, queue-building signal on/off per link; bitrates from the grid {0, 10k, 60k, 200k, 1M, 3M} bit/s and smoothed "
           "RTTs from {none, 50, 400, 3000} ms (both sides of the 100 kbit/s bypass floor, of the share thresholds and of the delay tiers); a second "
           "instance draws bitrates that sit exactly on and one permille under the enter (125) and leave (375) thresholds",
    stubs=["srtla-core feature `verif-model`: the classifier's four std HashMaps are a four-entry array map with the same surface (std's hashbrown "
           "table did not get through CBMC in 50 min); native replays are built without the feature and execute the real HashMap"],
    assumptions=["invariant weak_streak < 15 and probation <= 3 assumed on the memory and re-asserted on the post-state (one inductive step covers "
                 "tick histories of any length)"],
    outside="fully symbolic f64 bitrates / RTTs (a u16-symbolic bitrate instance did not finish in 30 min: symbolic float division); more than 3 "
            "links; the leaf formulas derive_max_delay_budget / pick_tier are executed but only constrained through selected_delay_ms as reported",
    harnesses=[
        H("c17::c17_classify_step_n2", "core", desc="never weak when disconnected / under the floor (memory cleared); delay reasons need the signal now and on the previous tick; "
          "probation armed by the 15th share-weak verdict and counted down over three not-weak ticks; enter < 1/4, leave >= 3/4 of fair share; INV preserved", bounds="N=2"),
        H("c17::c17_classify_step_n2_thresholds", "core", desc="same, bitrates exactly on / one permille under the enter and leave thresholds", bounds="N=2, boundary bitrates"),
        H("c17::c17_classify_step_n3", "core", bounds="N=3 (needed for: two connected links next to a disconnected one)", timeout=1500),
        H("c17::c17_history_3", "core", tier="thorough", desc="3-tick history from a fresh filter, monitors over inputs and verdicts only (no memory accessors)", bounds="N=2, 3 ticks, grid inputs", timeout=3000),
    ],
)

C09_ENV = {"VERIF_SV_CAP": "26", "VERIF_C09_MAXD": "24"}
C09_ENV40 = {"VERIF_SV_CAP": "42", "VERIF_C09_MAXD": "40"}
PROPS["C09"] = dict(
    functions=["sender::uplink_recv::process_uplink_packet (async fn without a suspending await: polled exactly once, see DESIGN.md 2.5)",
               "SrtlaRegistrationManager::{process_registration_packet, reg1_if_ngp_immediate}", "SrtlaConnection::{clear_pre_registration_state, record_rtt_probe}",
               "RttTracker::handle_keepalive_response", "srtla_protocol::{get_packet_type, parse_srt_ack, parse_srt_nak, parse_srtla_ack, extract_keepalive_timestamp}"],
    bounds="one datagram of 0..=24 bytes (symbolic length and bytes) arriving on an arbitrary uplink index < 3, in any link state under the representation "
           "invariant (any phase incl. registering / warming / live, connected or not, awaiting a keepalive echo or not, clock <= 2^48), any registration "
           "manager state over 3 uplinks, client address known or not; all 65536 type codes covered by 10 instances (one per type the sender interprets, "
           "one for every other code, one for 0..1-byte datagrams); NAK ranges <= 3 wide",
    stubs=["srtla_core::utils::now_ms -> harness clock", "tokio::net::UdpSocket::try_send_to -> recorder (counts calls, remembers length and first byte), returns Ok",
           "tokio::sync::mpsc::UnboundedSender::send -> Ok", "RttTracker::update_estimate -> records the sample (the estimator's arithmetic is C14's subject)",
           "alloc::fmt::format -> empty String"],
    assumptions=["a warming link has collected <= 1,000,000 RTT probes (it is promoted at 2; u32::MAX probes is unreachable and would overflow the counter)",
                 "the socket and channel references are never dereferenced (every entry point reachable from the function is stubbed)"],
    outside="STAGE 1 ONLY: the datagram is classified and queued in SrtlaIncoming::forward_to_client exactly once / never, byte-for-byte (and SRT ACKs also take "
            "the instant path once). STAGE 2 - process_connection_events handing each queued datagram to the client socket (`send_to(..).await`) - is socket I/O "
            "cut out of the verification build and is NOT decided, nor is try_send_to's WouldBlock fallback (the stub always succeeds). Datagrams of 25..MTU "
            "bytes (the function looks at fixed offsets <= 20 and at the lists decided in C15); NAK ranges wider than 3; the earned-SRTLA-ACK proof stamp (C13).",
    harnesses=[
        H("c09::c09_other_types", "shell", env=C09_ENV, desc="any type code the sender does not interpret (incl. SRT data from the receiver): relayed once, unchanged; liveness refreshed; no proof stamp", timeout=1500),
        H("c09::c09_typeless", "shell", env=C09_ENV, desc="0..1-byte datagrams: nothing relayed, no state change, no panic", timeout=1500),
        H("c09::c09_srt_ack", "shell", env=C09_ENV, desc="SRT ACK: relayed once + instant path once iff client known; number extracted at 16..20", timeout=1500),
        H("c09::c09_srt_nak", "shell", env=C09_ENV, desc="SRT NAK: relayed once, list parsed", timeout=1500),
        H("c09::c09_srtla_ack", "shell", env=C09_ENV, desc="SRTLA ACK: never relayed; every number extracted; no proof stamp here", timeout=1500),
        H("c09::c09_keepalive", "shell", env=C09_ENV, desc="keepalive echo: never relayed; proof stamped only if a probe was outstanding and the echo is accepted", timeout=1500),
        H("c09::c09_reg_ngp", "shell", env=C09_ENV, desc="REG_NGP: never relayed; immediate REG1 only here; liveness not refreshed", timeout=1500),
        H("c09::c09_reg2", "shell", env=C09_ENV, desc="REG2: never relayed", timeout=1500),
        H("c09::c09_reg3", "shell", env=C09_ENV, desc="REG3: never relayed; connects the uplink, warming with clean accounting", timeout=1500),
        H("c09::c09_reg_err", "shell", env=C09_ENV, desc="REG_ERR: never relayed; disconnects", timeout=1500),
        # thorough: the same instances up to 40 bytes (covers the 38-byte extended keepalive echo and longer relayed datagrams)
        H("c09::c09_keepalive", "shell", tier="thorough", env=C09_ENV40, desc="keepalive echo, datagrams up to 40 B (38-byte extended keepalive)", bounds="0..=40 B", timeout=3000),
        H("c09::c09_other_types", "shell", tier="thorough", env=C09_ENV40, desc="other type codes, datagrams up to 40 B", bounds="0..=40 B", timeout=3000),
        H("c09::c09_srt_ack", "shell", tier="thorough", env=C09_ENV40, desc="SRT ACK, datagrams up to 40 B", bounds="0..=40 B", timeout=3000),
    ],
)

NOT_APPLICABLE = {
    "C19": "the reload parser (analyze_ip_reload_text: str::lines / trim / IpAddr::from_str over a symbolic text) did not finish in CBMC even for "
           "one-character texts (timeout / >14 GB at 20 min per length), and apply_connection_changes is I/O-bound async code (format!-built "
           "label sets, HashSet<String>, socket creation through the binder, tokio); only the SequenceTracker purge clause is decidable and it "
           "is checked under C05 (c19_tracker_purge) - too small a part of the statement to claim the property",
    "C20": "quantifies over interleavings of tokio tasks contending for an async Mutex and bounded mpsc channels; Kani/CBMC do not model "
           "concurrency or an async scheduler, tokio's runtime touches thread-locals Kani 0.68 cannot compile, and a hand encoding would "
           "verify a model of tokio rather than the real code",
}
