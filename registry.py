"""Harness registry: which Kani harnesses decide which property, at which tier, with which
bounds / stubs / assumptions.  bin/check reads this; evidence files are generated from it plus
the parsed solver output."""

MEM_GB = 14
MEM_GB_PLAYBACK = 44   # kani-driver parses the full CBMC json trace for concrete playback
DEFAULT_TIMEOUT = {"quick": 600, "thorough": 3000}

COMMON_ASSUMPTIONS = [
    "Kani 0.68 / CBMC 6.11 / CaDiCaL are sound for the Rust MIR they compile (dev-profile semantics, overflow checks on)",
    "tracing macros are no-ops (patched crate in the harness workspace only): behaviour of real tracing with no subscriber",
    "smallvec::SmallVec and rustc_hash::FxHashMap are replaced IN THE KANI BUILD ONLY by sequence / finite-map models "
    "(/verif/stubs); every counterexample is re-executed natively on the real crates before it is reported",
]


def H(name, crate, tier="quick", desc="", bounds="", **kw):
    d = dict(name=name, crate=crate, tier=tier, desc=desc, bounds=bounds)
    d.update(kw)
    return d


PROPS = {}

PROPS["C06"] = dict(
    functions=["CongestionControl::handle_nak", "CongestionControl::handle_srtla_ack_specific_classic -> congestion::classic::handle_srtla_ack_specific",
               "CongestionControl::handle_srtla_ack_enhanced -> congestion::enhanced::handle_srtla_ack",
               "CongestionControl::perform_window_recovery -> congestion::enhanced::perform_window_recovery", "CongestionControl::reset",
               "SrtlaConnection::{handle_srtla_ack_specific, handle_nak, handle_srtla_ack_global, mark_for_recovery, reset_for_reconnect, new_registering}"],
    bounds="one step of each mutator from an arbitrary state: window in [1000,60000], in-flight in 0..=i32::MAX, every other "
           "CongestionControl field over its full type, RTT velocity over all f64 bit patterns (NaN/inf included), clock over all u64 "
           "(connection-level harness: clock <= 2^48, <= 2 outstanding packets); thorough adds a 3-event symbolic history",
    stubs=["alloc::fmt::format -> empty String (message text only)"],
    assumptions=["representation invariant assumed on the pre-state and re-asserted on the post-state: 1000 <= window <= 60000"],
    outside="'classic mode never applies time-based recovery' is decided by the shell harness c06s (housekeeping) when present; "
            "histories longer than one step are covered inductively through the asserted invariant",
    harnesses=[
        H("c06::c06_nak_step", "core", desc="NAK: -100 floored, never increases, fast recovery entered only at <=2000"),
        H("c06::c06_ack_classic_step", "core", desc="classic earned ACK: +29 iff in_flight*1000 > window, capped, never decreases"),
        H("c06::c06_ack_enhanced_step", "core", desc="enhanced earned ACK: same growth; fast recovery left only at >=12000"),
        H("c06::c06_recovery_step", "core", desc="time-based recovery: never decreases, capped, fast recovery left only at >=12000"),
        H("c06::c06_conn_events_step", "core", desc="same rules through SrtlaConnection API incl. global +1", bounds="<=2 outstanding packets, unwind 4"),
        H("c06::c06_resets", "core", desc="initial and post-teardown window 20000"),
        H("c06::c06_history_3", "core", tier="thorough", desc="3-event symbolic history, trace invariants", bounds="3 events"),
    ],
)

PROPS["C13"] = dict(
    functions=["SrtlaConnection::{effective_stall_stale_ms, is_stalled, update_stall_latch, silence_pull_window_ms, is_briefly_silent, "
               "update_silence_pull (via hook), get_smooth_rtt_ms}",
               "SrtlaConnection::{handle_srtla_ack_specific, handle_srt_ack, handle_nak, handle_srtla_ack_global, register_packet, keepalive_packet, "
               "perform_window_recovery, update_phase} (proof-stamp sites)"],
    bounds="one call from an arbitrary link state: every field the guard reads is symbolic (in-flight 0..=i32::MAX, threshold any i32 incl. "
           "negative, ceiling 0..2^48 incl. below the 1000 ms floor, clock/stamps 0..2^48, smoothed RTT none or any whole ms 0..5000; "
           "c13_effective_window_f64: any finite f64 RTT); temporal clause: 3 consecutive decisions with arbitrary state changes in between",
    stubs=["alloc::fmt::format -> empty String", "RttTracker::update_estimate -> no-op (c13_proof_stamp_sites only: RTT sampling is C14)"],
    assumptions=["clock values <= 2^48 ms", "trace harness starts with no rejoin run in progress (a run cannot pre-date the trace)"],
    outside="keepalive-echo stamping site lives in the shell (process_uplink_packet) and is decided by the C09 shell harness when present; "
            "traces longer than 3 decisions follow inductively from c13_latch_step's run-bookkeeping facts",
    harnesses=[
        H("c13::c13_effective_window", "core", desc="effective staleness / pull windows equal the clamp formulas"),
        H("c13::c13_effective_window_f64", "core", desc="same with a fully symbolic finite f64 smoothed RTT"),
        H("c13::c13_latch_step", "core", desc="engage/hold/release conditions of one update_stall_latch call"),
        H("c13::c13_pull_step", "core", desc="engage/release conditions of one update_silence_pull call"),
        H("c13::c13_latch_trace_3", "core", desc="3-decision trace vs independent fresh-run monitor", bounds="3 decisions, unwind 4"),
        H("c13::c13_latch_trace_release_reachable", "core", desc="vacuity witness: a release within 3 decisions is reachable"),
        H("c13::c13_proof_stamp_sites", "core", desc="delivery proof stamped only by an earned SRTLA ACK"),
    ],
)

SEL_FUNCS = ["selection::select_connection_idx", "selection::apply_stall_gate", "selection::classic::select_connection",
             "selection::enhanced::{select_connection, in_flight_cap_exceeded, in_flight_cap_packets, cc_soft_cap_multiplier}",
             "SrtlaConnection::{is_timed_out, is_schedulable, get_score, phase_weight, update_stall_latch, update_silence_pull, "
             "is_stalled, is_briefly_silent, effective_stall_stale_ms, silence_pull_window_ms, get_cached_quality_multiplier}"]
SEL_BOUNDS = ("one selection over N fully symbolic links (every field the selectors/guards read: phase, connected, receive/proof stamps, "
              "in-flight 0..=i32::MAX, window 1000..=60000, stall latch/pull state, weak / loss-degraded flags, CC target any u64, "
              "smoothed RTT none or whole ms 0..5000; enhanced: bitrate 0..1e10, rtt_min any finite f64, cached quality multiplier in "
              "[0.35, 1.133]), symbolic ConfigSnapshot (timeout 1000..60000, any thresholds incl. negative in-flight threshold and "
              "ceiling below floor, guard/quality on or off), symbolic previous index incl. out of range, clock 1..2^48")

PROPS["C03"] = dict(
    functions=SEL_FUNCS,
    bounds=SEL_BOUNDS + "; N = 2 (quick), 3 (thorough; classic also 4)",
    stubs=[],
    assumptions=["clock values <= 2^48 ms", "enhanced harnesses: 50 ms quality cache fresh (exp() path decided separately in C11)"],
    outside="N > 4 links; the stale-quality-cache path (exp) in the enhanced selector is covered by C11's contract-stubbed harness",
    harnesses=[
        H("c03::c03_classic_n2", "core", desc="C03/C04(i)/C12(a) on one classic selection, 2 links", bounds="N=2"),
        H("c03::c03_enhanced_n2", "core", desc="C03/C04(i)/C12(a) on one enhanced selection, 2 links", bounds="N=2"),
        H("c03::c03_classic_n3", "core", tier="thorough", desc="same, 3 links", bounds="N=3", timeout=3000),
        H("c03::c03_classic_n4", "core", tier="thorough", desc="same, 4 links", bounds="N=4", timeout=3000),
        H("c03::c03_enhanced_n3", "core", tier="thorough", desc="same, 3 links", bounds="N=3", timeout=3000),
    ],
)

PROPS["C15"] = dict(
    functions=["srtla_protocol::{get_packet_type, get_srt_sequence_number, is_srt_data_retransmit, is_srtla_reg1, is_srtla_reg2, is_srtla_reg3, "
               "is_srtla_keepalive, is_srt_ack, extract_keepalive_timestamp, extract_keepalive_conn_info, parse_srt_ack, parse_srtla_ack, "
               "parse_srt_nak, create_reg1_packet, create_reg2_packet, create_keepalive_packet, create_keepalive_packet_ext, create_ack_packet}"],
    bounds="decoders: every byte string of 0..=24 bytes (ext. keepalive decoder 0..=40; REG predicates 256..=260), symbolic length and bytes, "
           "all 65536 type codes; NAK differential: ranges <= 4 wide; NAK cap: one range with any 32-bit bounds (unwind 1003; thorough: two "
           "ranges, 20 bytes); builders: every argument value, <= 4 ACK numbers",
    stubs=["smallvec::SmallVec::push -> count-only push (c15_nak_*_cap harnesses only: the cap is a claim about the number of entries)"],
    assumptions=["smallvec::SmallVec modelled as an array-backed sequence in the Kani build"],
    outside="byte strings of 25..1500 bytes (the decoder loops are uniform in the length; not covered by the bound); "
            "NAK frames mixing more than two ranges",
    harnesses=[
        H("c15::c15_fixed_decoders_24", "proto", desc="type/seq/retransmit/REG3/keepalive ts/SRT ACK vs reference decoder", bounds="len 0..=24"),
        H("c15::c15_conn_info_decoder_40", "proto", desc="extended keepalive decoder vs literal offsets", bounds="len 0..=40"),
        H("c15::c15_reg_predicates_258", "proto", desc="REG1/REG2 exact length 258", bounds="len 256..=260"),
        H("c15::c15_srtla_ack_decoder_24", "proto", desc="SRTLA ACK list vs reference", bounds="len 0..=24"),
        H("c15::c15_nak_decoder_16", "proto", desc="NAK list vs reference decoder (singles + ranges)", bounds="len 0..=16, ranges <= 3 wide"),
        H("c15::c15_nak_singles_24", "proto", desc="NAK singles vs layout", bounds="len 0..=24, no range openers"),
        H("c15::c15_nak_range_cap", "proto", desc="1000-entry cap incl. range ending at 0xFFFFFFFF (+ trailing single)", bounds="one range, any u32 bounds, range loop unwound 1003 (--unwindset), other loops 6; push stubbed to count-only", timeout=1500,
          unwindset=[dict(func="parse_srt_nak", pick="last_line", n=1003)]),
        H("c15::c15_nak_two_ranges_cap", "proto", tier="thorough", desc="cap on the total of two ranges", bounds="two ranges, any u32 bounds, range loop unwound 1003 (--unwindset); push stubbed to count-only", timeout=3000,
          unwindset=[dict(func="parse_srt_nak", pick="last_line", n=1003)]),
        H("c15::c15_build_reg1_reg2", "proto", desc="REG1/REG2 builders: 258 bytes, type + id"),
        H("c15::c15_build_keepalives", "proto", desc="keepalive builders round-trip, literal layout"),
        H("c15::c15_build_ack", "proto", desc="SRTLA ACK builder round-trip", bounds="<= 4 numbers"),
    ],
)

PROPS["C08"] = dict(
    functions=["SrtlaConnection::is_timed_out", "ReconnectionState::{should_attempt_reconnect, backoff_delay, record_attempt, mark_success}",
               "SrtlaConnection::{reset_for_reconnect, mark_for_recovery, clear_pre_registration_state, reset_core_state}",
               "BatchSender::reset, CongestionControl::reset, RttTracker::reset, BitrateTracker::reset"],
    bounds="one call from an arbitrary link / reconnection state: every field symbolic (failure count any u32, clocks 0..2^48, timeout "
           "1000..60000); reset harness: <= 2 outstanding and <= 2 queued packets",
    stubs=[],
    assumptions=["clock values <= 2^48 ms", "decision clock >= 1 (0 is the 'never' sentinel)"],
    outside="'connected again within 30 s once the path delivers' and 'survivors keep carrying throughout' are liveness properties of the whole "
            "event loop with real sockets, timers and a receiver: not encodable (the per-decision part of the latter is C03). The housekeeping "
            "loop's use of these predicates is decided by the shell harness when present.",
    harnesses=[
        H("c08::c08_timed_out_matches_rule", "core", desc="is_timed_out == documented rule; independent of routing penalties"),
        H("c08::c08_retry_policy", "core", desc="retry spacing >= 1 s / 5 s, back-off table, cap 120 s, retries never stop"),
        H("c08::c08_record_attempt_spacing", "core", desc="spacing after a recorded attempt; saturating failure counter"),
        H("c08::c08_reset_poststates", "core", desc="teardown/REG3 post-states: default window, zero in-flight, registering/warming, guard state clear"),
    ],
)

PROPS["C10"] = dict(
    functions=SEL_FUNCS + ["congestion::classic::handle_srtla_ack_specific", "SrtlaConnection::handle_srtla_ack_global", "CongestionControl::handle_nak"],
    bounds=SEL_BOUNDS + "; 0..2 queued packets per link; N = 2 (quick), 3 and 4 (thorough); window rules: all i32 in-flight values",
    stubs=["alloc::fmt::format -> empty String"],
    assumptions=["clock values <= 2^48 ms"],
    outside="'no time-based recovery in classic' and 'every packet kind' (retransmit / critical-window override) are shell clauses decided "
            "by the shell harnesses when present; closed-loop histories are covered inductively (the reference is a function of the current state)",
    harnesses=[
        H("c10::c10_classic_reference_n2", "core", desc="classic choice == reference argmax, guard off", bounds="N=2"),
        H("c06::c06_ack_classic_step", "core", desc="+29 iff in_flight*1000 > window (unbounded integers), capped"),
        H("c06::c06_conn_events_step", "core", desc="global +1 iff connected and ever heard; -100 per charged NAK; bounds"),
        H("c06::c06_nak_step", "core", desc="-100 floored at 1000"),
        H("c10::c10_classic_reference_n3", "core", tier="thorough", bounds="N=3", timeout=3000),
        H("c10::c10_classic_reference_n4", "core", tier="thorough", bounds="N=4", timeout=3000),
    ],
)

PROPS["C12"] = dict(
    functions=SEL_FUNCS,
    bounds=SEL_BOUNDS + "; N = 2 (quick), 3 (thorough)",
    stubs=[],
    assumptions=["clock values <= 2^48 ms", "enhanced harnesses: 50 ms quality cache fresh"],
    outside="histories of selections are covered inductively: each selection starts from an arbitrary state (any latch/pull history)",
    harnesses=[
        H("c03::c03_classic_n2", "core", desc="projection of liveness/accounting state unchanged by a classic selection"),
        H("c03::c03_enhanced_n2", "core", desc="projection unchanged by an enhanced selection"),
        H("c10::c12_guard_off_classic_n2", "core", desc="guard off: flags cleared, decision == decision with clean stall history"),
        H("c10::c12_guard_off_enhanced_n2", "core", desc="same, enhanced"),
        H("c13::c13_latch_step", "core", desc="latch update touches guard-private fields only"),
        H("c10::c12_guard_off_classic_n3", "core", tier="thorough", bounds="N=3", timeout=3000),
        H("c03::c03_classic_n3", "core", tier="thorough", bounds="N=3", timeout=3000),
    ],
)

PROPS["C14"] = dict(
    functions=["SrtlaConnection::{keepalive_packet, needs_keepalive, needs_rtt_measurement, get_smooth_rtt_ms}",
               "RttTracker::{handle_keepalive_response, record_keepalive_sent, needs_measurement}", "KalmanFilter::update",
               "srtla_protocol::{create_keepalive_packet_ext, extract_keepalive_timestamp, extract_keepalive_conn_info}"],
    bounds="frame: any link state (window, in-flight, loss count, bitrate 0..1e10, RTT whole ms 0..5000, any 64-bit conn id), clock 1..2^48; "
           "echo filter: every echo of 0..=16 bytes, any clocks; Kalman: one update from |x|,|v| <= 1e6, covariances in [0,1e6], sample 1..10000 ms",
    stubs=["RttTracker::update_estimate -> sample recorder (c14_echo_filter only; the real estimator is run in c14_smooth_rtt_sane)"],
    assumptions=["clock values <= 2^48 ms", "Kalman pre-state bounded and covariance entries non-negative (stated bound)"],
    outside="the cadence clause (gap between keepalives <= two housekeeping periods) is a property of the housekeeping loop + tokio timer; its "
            "per-tick part is decided by the shell harness when present. Echo bytes after byte 16 are ignored by the parser (bound: 16 bytes).",
    harnesses=[
        H("c14::c14_keepalive_frame", "core", desc="38-byte frame, literal layout, telemetry = link state, probe arming"),
        H("c14::c14_need_predicates", "core", desc="needs_keepalive / needs_rtt_measurement equal their rules"),
        H("c14::c14_echo_filter", "core", desc="sample only from an outstanding probe's echo with 0 < RTT <= 10 s; duplicates ignored"),
        H("c14::c14_smooth_rtt_sane", "core", desc="smoothed RTT >= 0 and finite after a real Kalman update", timeout=1500),
    ],
)

NOT_APPLICABLE = {
    "C20": "quantifies over interleavings of tokio tasks contending for an async Mutex and bounded mpsc channels; Kani/CBMC do not model "
           "concurrency or an async scheduler, tokio's runtime touches thread-locals Kani 0.68 cannot compile, and a hand encoding would "
           "verify a model of tokio rather than the real code",
}
